//! C05 — compiled lig/kern programs equal direct interpretation; loops detected exactly.
//! Engine: BEX. DESIGN.md §3 C05. Oracle: reftex::ligkern (TeX §1034‑1040 main loop on raw
//! instruction words, TFtoPL §88‑95 loop detector cross-checked by bounded simulation).

use reftex::ligkern::{self as lk, Font, Node};
use reftex::tfmraw::store_scaled;
use serde_json::{json, Value};
use std::collections::HashMap;
use std::sync::Mutex;
use tfm::ligkern::lang::{Instruction, Operation, PostLigOperation as P, Program};
use tfm::ligkern::{CompiledProgram, RunItem, RunOptions};
use tfm::{Char, FixWord};
use vcore::{catch, Acc, Ctx, Level};

mod gen;
use gen::*;

fn model_font(p: &Prog) -> Font {
    Font::new(p.words.clone(), &p.starts, p.rbc, p.lb_start)
}

/// The same instructions as repository types, word by word (the inverse of deserialize.rs's reading
/// of a lig/kern word). Kerns #0 and #3 are given by value, kerns #1 and #2 by index into the kern table.
fn to_program(p: &Prog) -> (Program, HashMap<Char, u16>, Vec<FixWord>) {
    let instructions = p
        .words
        .iter()
        .map(|w| {
            let [skip, next, op, rem] = *w;
            if skip > 128 {
                return Instruction { next_instruction: None, right_char: Char(next), operation: Operation::EntrypointRedirect(u16::from_be_bytes([op, rem]), true) };
            }
            let operation = if op >= 128 {
                let idx = 256 * (op as u16 - 128) + rem as u16;
                if idx == 0 || idx == 3 {
                    Operation::Kern(FixWord(KERNS[idx as usize]))
                } else {
                    Operation::KernAtIndex(idx)
                }
            } else {
                let post = match op {
                    0 => P::RetainNeitherMoveToInserted,
                    1 => P::RetainRightMoveToInserted,
                    5 => P::RetainRightMoveToRight,
                    2 => P::RetainLeftMoveNowhere,
                    6 => P::RetainLeftMoveToInserted,
                    3 => P::RetainBothMoveNowhere,
                    7 => P::RetainBothMoveToInserted,
                    11 => P::RetainBothMoveToRight,
                    _ => unreachable!(),
                };
                Operation::Ligature { char_to_insert: Char(rem), post_lig_operation: post, post_lig_tag_invalid: false }
            };
            Instruction { next_instruction: if skip < 128 { Some(skip) } else { None }, right_char: Char(next), operation }
        })
        .collect();
    let eps = p.starts.iter().map(|(c, s)| (Char(*c), *s as u16)).collect();
    let prog = Program { instructions, left_boundary_char_entrypoint: p.lb_start.map(|s| s as u16), right_boundary_char: p.rbc.map(Char), passthrough: Default::default() };
    (prog, eps, KERNS.iter().map(|k| FixWord(*k)).collect())
}

/// (left boundary enabled, right_boundary_override)
const MODES: [(bool, Option<u8>); 3] = [(true, None), (false, None), (true, Some(b'b'))];

// ------------------------------------------------------------------ one program

#[derive(Clone, Debug, PartialEq)]
enum Out {
    G(u8),
    K(i64),
}

struct ImplRun {
    seq: Vec<Out>,
    spelled: Vec<u8>,
    is_lig: Vec<bool>,
    nodes: Vec<Node>,
    kerns_at: Vec<i64>,
}

fn impl_run(cp: &CompiledProgram, word: &[u8], lb: bool, ovr: Option<u8>) -> Result<ImplRun, vcore::Panic> {
    catch(|| {
        let mut r = ImplRun { seq: vec![], spelled: vec![], is_lig: vec![], nodes: vec![], kerns_at: vec![] };
        let opts = RunOptions { disable_left_boundary: !lb, right_boundary_override: ovr.map(|c| c as char) };
        // the default mode goes through `CompiledProgram::run(&str)`, the others through run_with_options
        let text: String = word.iter().map(|c| *c as char).collect();
        let items: Vec<RunItem> = if lb && ovr.is_none() { cp.run(&text).take(10_000).collect() } else { cp.run_with_options(word.iter().map(|c| *c as char), opts).take(10_000).collect() };
        for it in items {
            match it {
                RunItem::Char(c) => {
                    r.seq.push(Out::G(c as u8));
                    r.spelled.push(c as u8);
                    r.is_lig.push(false);
                    r.nodes.push(Node::Char(c as u8));
                }
                RunItem::Kern(k) => {
                    r.seq.push(Out::K(k.0 as i64));
                    r.kerns_at.push(k.0 as i64);
                    r.nodes.push(Node::Kern(usize::MAX));
                }
                RunItem::Ligature(l) => {
                    r.seq.push(Out::G(l.c as u8));
                    r.spelled.extend(l.original.chars().map(|c| c as u8));
                    r.is_lig.push(true);
                    r.nodes.push(Node::Lig { c: l.c as u8, orig: l.original.chars().map(|c| c as u8).collect(), left: l.includes_left_boundary, right: l.includes_right_boundary });
                }
            }
        }
        r
    })
}

fn scaled_kern(idx: usize) -> i64 {
    store_scaled(KERNS[idx], (DESIGN_SIZE / 16) as i64).expect("kern in range")
}

fn render_nodes(n: &[Node]) -> String {
    n.iter()
        .map(|x| match x {
            Node::Char(c) => format!("{}", *c as char),
            Node::Kern(k) if *k == usize::MAX => "kern".into(),
            Node::Kern(k) => format!("kern#{k}"),
            Node::Lig { c, orig, left, right } => format!("{}(lig {}{}{})", *c as char, if *left { "|" } else { "" }, String::from_utf8_lossy(orig), if *right { "|" } else { "" }),
        })
        .collect::<Vec<_>>()
        .join(" ")
}

struct Shared {
    machinery: Mutex<Vec<String>>,
}

fn case_json(rules: &[Rule], rbc: Option<u8>, layout: Layout, extra: Value) -> Value {
    let mut v = json!({
        "rules": rules.iter().map(|r| vec![r.left, r.right, r.op]).collect::<Vec<_>>(),
        "rbc": rbc,
        "layout": LAYOUTS.iter().position(|l| *l == layout),
        "text": describe_rules(rules, rbc),
        "layout_name": format!("{layout:?}"),
        "alphabet": REMAP.with(|m| m.get()),
    });
    if let (Some(a), Some(b)) = (v.as_object_mut(), extra.as_object()) {
        for (k, x) in b {
            a.insert(k.clone(), x.clone());
        }
    }
    v
}

/// Check one program (loop verdict) and, if it is loop-free, every word in every mode.
thread_local! {
    /// Byte values that stand for the letters a, b, c in the current case (8-bit variants of the families).
    static REMAP: std::cell::Cell<[u8; 3]> = const { std::cell::Cell::new([b'a', b'b', b'c']) };
}
fn remap(c: u8) -> u8 {
    let m = REMAP.with(|m| m.get());
    match c {
        b'a' => m[0],
        b'b' => m[1],
        b'c' => m[2],
        x => x,
    }
}
/// The same program over the alphabet REMAP (next_char, inserted characters, entry points, boundary character).
fn remap_prog(p: Prog) -> Prog {
    if REMAP.with(|m| m.get()) == [b'a', b'b', b'c'] {
        return p;
    }
    Prog {
        words: p.words.iter().map(|w| [w[0], remap(w[1]), w[2], if w[2] < 128 && w[0] <= 128 { remap(w[3]) } else { w[3] }]).collect(),
        starts: p.starts.iter().map(|(c, s)| (remap(*c), *s)).collect(),
        lb_start: p.lb_start,
        rbc: p.rbc.map(remap),
    }
}

fn check_program(idx: u64, rules: &[Rule], rbc: Option<u8>, layout: Layout, words: &[Vec<u8>], only: Option<(&[u8], bool, Option<u8>)>, acc: &mut Acc, sh: &Shared, phantom: bool) {
    let Some(p) = build(rules, rbc, layout).map(remap_prog) else {
        acc.skipped += 1; // a right-boundary rule without a boundary character cannot be written down
        return;
    };
    let mut font = model_font(&p);
    font.exec_stop_words = phantom;
    // ---- oracle: loops
    let knuth = lk::knuth_loop(&font);
    let sim = lk::looping_pairs(&font, SIM_BUDGET);
    if knuth.is_some() != !sim.is_empty() {
        sh.machinery.lock().unwrap().push(format!("loop oracles disagree on [{}] layout {layout:?}: TFtoPL f(x,y) says {knuth:?}, simulation says {sim:?}", describe_rules(rules, rbc)));
        return;
    }
    let oracle_loop = !sim.is_empty();
    // ---- implementation: compile
    let (prog, eps, kerns) = to_program(&p);
    let compiled = catch(|| CompiledProgram::compile(&prog, FixWord(DESIGN_SIZE), &kerns, eps.clone()));
    acc.eval();
    let (cp, errs) = match compiled {
        Ok(x) => x,
        Err(pn) => {
            acc.fail(idx, case_json(rules, rbc, layout, json!({"kind": "compile"})), "compile returns", pn.describe(), "compile panicked");
            return;
        }
    };
    if oracle_loop {
        acc.nontrivial();
        acc.count("loop_programs");
        if sim.iter().all(|(x, _)| *x == 256) {
            acc.count("loop_only_through_left_boundary");
        }
        if let Some(b) = p.rbc {
            // loops whose every starting pair has the boundary character as right character
            if sim.iter().all(|(_, y)| *y == b) {
                acc.count("loop_only_with_boundarychar_on_the_right");
            }
        }
    }
    if oracle_loop != !errs.is_empty() {
        acc.fail(
            idx,
            case_json(rules, rbc, layout, json!({"kind": "compile"})),
            if oracle_loop { format!("an infinite loop is reported (pairs that never terminate: {sim:?}, 256 = left boundary)") } else { "no infinite loop is reported: every pair terminates".to_string() },
            format!("{errs:?}"),
            "loop verdict differs from direct interpretation",
        );
        acc.class("loop verdict differs");
        return;
    }
    if oracle_loop {
        // Which pair is named in the report is not part of the statement ("reports an infinite loop
        // exactly when ... some character pair never terminate"): recorded as an outcome class only.
        let all_nonterminating = errs.iter().all(|e| sim.contains(&(e.starting_pair.0.map(|c| c.0 as i32).unwrap_or(256), e.starting_pair.1 .0)));
        if !all_nonterminating {
            acc.count("info_reported_pair_terminates");
            acc.class("loop reported, a named starting pair terminates by itself");
            return;
        }
        acc.class("loop reported");
        return;
    }
    // ---- loop-free: every word, every mode
    let run_list: Vec<(&[u8], bool, Option<u8>)> = match only {
        Some(o) => vec![o],
        None => words.iter().flat_map(|w| MODES.iter().map(move |(lb, ovr)| (w.as_slice(), *lb, *ovr))).collect(),
    };
    for (w0, lb, ovr0) in run_list {
        let wm: Vec<u8> = w0.iter().map(|c| remap(*c)).collect();
        let (w, ovr) = (wm.as_slice(), ovr0.map(remap));
        acc.eval();
        if w.iter().any(|c| *c >= 0x80) {
            acc.count("word_with_8bit_character");
        }
        let bchar = ovr.or(font.bchar);
        let Some(m) = lk::run(&font, w, lb, bchar, SIM_BUDGET) else {
            sh.machinery.lock().unwrap().push(format!("model run exceeded its budget on a loop-free program [{}] word {:?}", describe_rules(rules, rbc), String::from_utf8_lossy(w)));
            return;
        };
        let case = || case_json(rules, rbc, layout, json!({"kind": "run", "word": String::from_utf8_lossy(w0), "lb": lb, "override": ovr0, "alphabet": REMAP.with(|m| m.get()), "word_bytes": w}));
        // vacuity counters, from the model's trace only
        if !m.fired.is_empty() {
            acc.nontrivial();
        }
        {
            let mut seen: Vec<usize> = vec![];
            let mut re = false;
            for f in &m.fired {
                if seen.contains(&f.k) {
                    re = true;
                }
                seen.push(f.k);
            }
            if re {
                acc.count("instruction_fired_twice_in_one_word");
            }
            if m.fired.iter().any(|f| !f.kern && f.on_ligature) {
                acc.count("ligature_of_a_ligature");
            }
            if m.fired.iter().any(|f| f.left_boundary) {
                acc.count("left_boundary_rule_fired");
            }
            if m.fired.iter().any(|f| f.right_boundary) {
                acc.count("right_boundary_rule_fired");
            }
            if m.fired.iter().any(|f| f.k > 255) {
                acc.count("instruction_beyond_255_fired");
            }
            if m.nodes.iter().any(|n| matches!(n, Node::Lig { c, .. } if *c >= 0x80)) {
                acc.count("ligature_glyph_8bit_emitted");
            }
            if m.fired.len() >= 2 && m.nodes.iter().any(|n| matches!(n, Node::Lig { c, .. } | Node::Char(c) if *c >= 0x80)) {
                acc.count("rule_fired_next_to_8bit_glyph");
            }
            if m.nodes.iter().any(|n| matches!(n, Node::Kern(k) if KERNS[*k] == 0)) {
                acc.count("zero_kern_emitted");
            }
        }
        let want: Vec<Out> = m
            .nodes
            .iter()
            .map(|n| match n {
                Node::Char(c) => Out::G(*c),
                Node::Lig { c, .. } => Out::G(*c),
                Node::Kern(k) => Out::K(scaled_kern(*k)),
            })
            .collect();
        let got = match impl_run(&cp, w, lb, ovr) {
            Ok(g) => g,
            Err(pn) => {
                acc.fail(idx, case(), render_nodes(&m.nodes), pn.describe(), "run panicked");
                acc.class("run panicked");
                continue;
            }
        };
        if got.seq != want {
            acc.fail(idx, case(), format!("{} = {:?}", render_nodes(&m.nodes), want), format!("{} = {:?}", render_nodes(&got.nodes), got.seq), "characters / ligature glyphs / kerns differ from direct interpretation");
            acc.class("sequence differs");
            continue;
        }
        if got.spelled != w {
            acc.fail(idx, case(), format!("characters + ligature originals spell {:?}", String::from_utf8_lossy(w)), format!("{} spells {:?}", render_nodes(&got.nodes), String::from_utf8_lossy(&got.spelled)), "recorded characters do not spell the word");
            acc.class("spelling differs");
            continue;
        }
        // a glyph that TeX holds in a ligature node must be reported as a ligature
        let model_lig: Vec<bool> = m.nodes.iter().filter(|n| !matches!(n, Node::Kern(_))).map(|n| matches!(n, Node::Lig { .. })).collect();
        if model_lig.iter().zip(got.is_lig.iter()).any(|(m, g)| *m && !*g) {
            acc.fail(idx, case(), render_nodes(&m.nodes), render_nodes(&got.nodes), "a glyph produced by a ligature command is reported as a plain character");
            acc.class("ligature reported as character");
            continue;
        }
        // spelling with the boundaries as pseudo-characters (what \showbox prints inside "(ligature ...)"):
        // insensitive to how originals are distributed over nodes, sensitive to a boundary that is
        // recorded although it took no part in a ligature, or not recorded although it did
        let marked = |n: &[Node]| -> String {
            let mut s = String::new();
            for x in n {
                match x {
                    Node::Char(c) => s.push(*c as char),
                    Node::Lig { orig, left, right, .. } => {
                        if *left {
                            s.push('|');
                        }
                        s.push_str(&String::from_utf8_lossy(orig));
                        if *right {
                            s.push('|');
                        }
                    }
                    Node::Kern(_) => {}
                }
            }
            s
        };
        if marked(&m.nodes) != marked(&got.nodes) {
            acc.fail(idx, case(), format!("{} (spelling with boundaries: {})", render_nodes(&m.nodes), marked(&m.nodes)), format!("{} (spelling with boundaries: {})", render_nodes(&got.nodes), marked(&got.nodes)), "ligature boundary flags differ from direct interpretation");
            acc.class("boundary flags differ");
            continue;
        }
        // informational: exact agreement with TeX's node bookkeeping (originals per node, boundary flags)
        let same_nodes = m.nodes.len() == got.nodes.len()
            && m.nodes.iter().zip(got.nodes.iter()).all(|(a, b)| match (a, b) {
                (Node::Kern(_), Node::Kern(_)) => true,
                _ => a == b,
            });
        if same_nodes {
            acc.class(&format!("agree, nodes identical to TeX's, {} command(s)", m.fired.len().min(6)));
            if m.fired.len() >= 3 {
                acc.sample(idx, || json!({"program": describe_rules(rules, rbc), "layout": format!("{layout:?}"), "word": String::from_utf8_lossy(w), "left_boundary": lb, "right_boundary_override": ovr.map(|c| (c as char).to_string()), "result": render_nodes(&got.nodes), "commands_fired": m.fired.len()}));
            }
        } else {
            acc.count("info_node_bookkeeping_differs_from_tex");
            let flags_only = m.nodes.len() == got.nodes.len()
                && m.nodes.iter().zip(got.nodes.iter()).all(|(a, b)| match (a, b) {
                    (Node::Lig { c, orig, .. }, Node::Lig { c: c2, orig: o2, .. }) => c == c2 && orig == o2,
                    (Node::Kern(_), Node::Kern(_)) => true,
                    _ => a == b,
                });
            acc.class(if flags_only { "agree, boundary flags placed differently from TeX" } else { "agree, originals distributed differently from TeX" });
            acc.sample(idx, || json!({"bookkeeping_difference": {"case": case(), "tex": render_nodes(&m.nodes), "crate": render_nodes(&got.nodes)}}));
        }
    }
}

/// Programs with an unconditional-stop word inside a chain. Expectation: TeX (the word is never
/// executed). If that fails, the case is compared with the adjusted expectation "the stop word is
/// executed as the ligature/kern command its op and remainder bytes spell" (what TFtoPL §91 enters
/// into its loop-check table, and what compiler.rs reimplements): agreement = finding class D40.
fn check_stop_word_program(idx: u64, rules: &[Rule], rbc: Option<u8>, words: &[Vec<u8>], only: Option<(&[u8], bool, Option<u8>)>, acc: &mut Acc, sh: &Shared) {
    let mut tex = Acc::default();
    check_program(idx, rules, rbc, Layout::StopWord, words, only, &mut tex, sh, false);
    if tex.fail_count == 0 {
        acc.merge(tex);
        return;
    }
    let mut adj = Acc::default();
    check_program(idx, rules, rbc, Layout::StopWord, words, only, &mut adj, sh, true);
    if adj.fail_count == 0 {
        let n = tex.fail_count;
        let first = tex.fails[0].clone();
        // keep the counts of the TeX-expectation run, drop its failures
        tex.fails.clear();
        tex.fail_count = 0;
        tex.classes.clear();
        tex.class("differs from TeX, equals TFtoPL's phantom reading of the stop word (D40)");
        acc.merge(tex);
        let e = acc.known.entry("D40".into()).or_insert((0, u64::MAX, Value::Null));
        e.0 += n;
        if idx < e.1 {
            e.1 = idx;
            let mut w = first.case.clone();
            w["expected_tex"] = json!(first.expected);
            w["observed"] = json!(first.observed);
            e.2 = w;
        }
    } else {
        acc.merge(tex);
    }
}

// ------------------------------------------------------------------ the raw-TFM route

/// A minimal TFM file for the characters a, b, c, d (width 1.0) with the lig/kern array `words` verbatim,
/// `entries` = (character, remainder byte) of the characters tagged with a lig/kern program, six kerns
/// (k+1) x 1.0 and design size 10.
fn tiny_tfm(words: &[lk::Word], entries: &[(u8, u8)]) -> Vec<u8> {
    let (bc, ec) = (b'a' as usize, b'd' as usize);
    let nk = 6usize;
    let lf = 6 + 18 + (ec + 1 - bc) + 2 + 1 + 1 + 1 + words.len() + nk;
    let mut out: Vec<u8> = vec![];
    for v in [lf, 18, bc, ec, 2, 1, 1, 1, words.len(), nk, 0, 0] {
        out.extend((v as u16).to_be_bytes());
    }
    let mut hb = vec![0u8; 72];
    hb[4..8].copy_from_slice(&DESIGN_SIZE.to_be_bytes());
    out.extend(&hb);
    for c in bc..=ec {
        match entries.iter().find(|e| e.0 as usize == c) {
            Some((_, r)) => out.extend([1, 0, 1, *r]),
            None => out.extend([1, 0, 0, 0]),
        }
    }
    out.extend([0, 0, 0, 0, 0, 0x10, 0, 0]);
    out.extend([0u8; 12]);
    for w in words {
        out.extend(w);
    }
    for k in 0..nk {
        out.extend((((k + 1) as i32) << 20).to_be_bytes());
    }
    out
}

/// One lig/kern array + entry bytes through `File::deserialize` + `compile_from_tfm_file`, compared with
/// the reference interpreter on the raw words (restart applied once, to the entry word only, §1039).
fn check_tfm_route(idx: u64, words: &[lk::Word], entries: &[(u8, u8)], run_words: &[Vec<u8>], acc: &mut Acc, sh: &Shared) {
    let font = Font::from_tfm(words.to_vec(), entries);
    let case = |extra: Value| {
        let mut v = json!({"kind": "tfm-route", "words": words, "entries": entries});
        if let (Some(a), Some(b)) = (v.as_object_mut(), extra.as_object()) {
            for (k, x) in b {
                a.insert(k.clone(), x.clone());
            }
        }
        v
    };
    // loop oracle: direct simulation (its agreement with TFtoPL's f(x,y) is established by the other families;
    // the 200 kB tables of `knuth_loop` would dominate this family); cross-checked only where a ligature exists
    let sim = lk::looping_pairs(&font, SIM_BUDGET);
    if idx % 64 == 0 && words.iter().any(|w| w[0] <= 128 && w[2] < 128) && lk::knuth_loop(&font).is_some() != !sim.is_empty() {
        sh.machinery.lock().unwrap().push(format!("loop oracles disagree on raw words {words:?} entries {entries:?}"));
        return;
    }
    let bytes = tiny_tfm(words, entries);
    acc.eval();
    let compiled = catch(|| {
        let mut file = tfm::File::deserialize(&bytes).0.expect("size-consistent file");
        CompiledProgram::compile_from_tfm_file(&mut file)
    });
    let (cp, errs) = match compiled {
        Ok(x) => x,
        Err(p) => {
            acc.fail(idx, case(json!({})), "deserialize + compile_from_tfm_file return", p.describe(), "compile_from_tfm_file panicked");
            return;
        }
    };
    // counters from the case
    let entry_restart = entries.iter().filter_map(|(_, r)| words.get(*r as usize)).filter(|w| w[0] > 128);
    for w in entry_restart {
        acc.count("tfm_route_entry_is_restart_word");
        match words.get(256 * w[2] as usize + w[3] as usize) {
            Some(t) if t[0] > 128 => acc.count("tfm_route_restart_target_is_again_a_stop_word"),
            None => acc.count("tfm_route_restart_target_out_of_range"),
            _ => {}
        }
    }
    if sim.is_empty() != errs.is_empty() {
        acc.fail(idx, case(json!({})), if sim.is_empty() { "no infinite loop is reported".to_string() } else { format!("an infinite loop is reported (non-terminating pairs {sim:?})") }, format!("{errs:?}"), "loop verdict differs from direct interpretation (TFM route)");
        return;
    }
    if !sim.is_empty() {
        acc.nontrivial();
        acc.class("loop reported");
        return;
    }
    let z = (DESIGN_SIZE / 16) as i64;
    for w in run_words {
        for lb in [true, false] {
            acc.eval();
            let Some(m) = lk::run(&font, w, lb, font.bchar, SIM_BUDGET) else { continue };
            if !m.fired.is_empty() {
                acc.nontrivial();
            }
            let want: Vec<Out> = m
                .nodes
                .iter()
                .map(|n| match n {
                    Node::Char(c) | Node::Lig { c, .. } => Out::G(*c),
                    Node::Kern(k) => Out::K(if *k < 6 { store_scaled(((*k + 1) as i32) << 20, z).unwrap_or(0) } else { 0 }),
                })
                .collect();
            let c = || case(json!({"word": String::from_utf8_lossy(w), "lb": lb}));
            match impl_run(&cp, w, lb, None) {
                Err(p) => acc.fail(idx, c(), render_nodes(&m.nodes), p.describe(), "run panicked (TFM route)"),
                Ok(got) => {
                    let model_lig: Vec<bool> = m.nodes.iter().filter(|n| !matches!(n, Node::Kern(_))).map(|n| matches!(n, Node::Lig { .. })).collect();
                    if got.seq != want {
                        acc.fail(idx, c(), format!("{} = {:?}", render_nodes(&m.nodes), want), format!("{} = {:?}", render_nodes(&got.nodes), got.seq), "characters / ligature glyphs / kerns differ from direct interpretation of the raw words (TFM route)");
                        acc.class("sequence differs (TFM route)");
                    } else if got.spelled != *w {
                        acc.fail(idx, c(), format!("spells {:?}", String::from_utf8_lossy(w)), format!("{} spells {:?}", render_nodes(&got.nodes), String::from_utf8_lossy(&got.spelled)), "recorded characters do not spell the word (TFM route)");
                    } else if model_lig.iter().zip(got.is_lig.iter()).any(|(m, g)| *m && !*g) {
                        acc.fail(idx, c(), render_nodes(&m.nodes), render_nodes(&got.nodes), "a glyph produced by a ligature command is reported as a plain character (TFM route)");
                    } else {
                        acc.class(&format!("agree (TFM route), {} command(s)", m.fired.len().min(6)));
                    }
                }
            }
        }
    }
}

// ------------------------------------------------------------------ model self-validation

/// Property-list style program text: `L x` label (x = | for the boundary), `S` stop, otherwise
/// `<form> <right> <char>` or `K <right> <kern index>`. Boundary character R, as in ligaroo.plst.
fn pl_program(src: &str) -> Font {
    let mut words: Vec<lk::Word> = vec![];
    let mut starts = vec![];
    let mut lb = None;
    for item in src.split(';').map(|s| s.trim()).filter(|s| !s.is_empty()) {
        let t: Vec<&str> = item.split_whitespace().collect();
        match t[0] {
            "L" => {
                if t[1] == "|" {
                    lb = Some(words.len());
                } else {
                    starts.push((t[1].as_bytes()[0], words.len()));
                }
            }
            "S" => {
                if let Some(w) = words.last_mut() {
                    w[0] = 128;
                }
            }
            "K" => words.push([0, t[1].as_bytes()[0], 128, t[2].parse().unwrap()]),
            f => {
                let op = FORMS[FORM_NAMES.iter().position(|n| *n == f).unwrap_or_else(|| panic!("form {f}"))];
                words.push([0, t[1].as_bytes()[0], op, t[2].as_bytes()[0]]);
            }
        }
    }
    if let Some(w) = words.last_mut() {
        w[0] = 128;
    }
    Font::new(words, &starts, Some(b'R'), lb)
}

/// Expected nodes: `A` character, `k0` kern, `1(AB)` ligature with originals, `|` inside the
/// parentheses marks the boundary flags, e.g. `1(|A)` `B(|)` – the notation of TeX's \showbox.
fn parse_nodes(s: &str) -> Vec<Node> {
    s.split_whitespace()
        .map(|t| {
            if let Some(k) = t.strip_prefix('k') {
                return Node::Kern(k.parse().unwrap());
            }
            match t.split_once('(') {
                None => Node::Char(t.as_bytes()[0]),
                Some((c, rest)) => {
                    let inner = rest.trim_end_matches(')');
                    // a lone | is ambiguous in \showbox; the table writes "<|" / "|>" for it
                    let (left, inner) = match inner.strip_prefix("<|") {
                        Some(r) => (true, r),
                        None => (false, inner),
                    };
                    let (right, inner) = match inner.strip_suffix("|>") {
                        Some(r) => (true, r),
                        None => (false, inner),
                    };
                    Node::Lig { c: c.as_bytes()[0], orig: inner.as_bytes().to_vec(), left, right }
                }
            }
        })
        .collect()
}

/// Expectations copied from crates/tfm/src/ligkern/mod.rs `tests!` (each verified against a real TeX
/// by the repository author under TEXCRAFT_VERIFY=tex). (test name, program, word, nodes)
const TEX_RECORDED: &[(&str, &str, &str, &str)] = &[
    ("single_lig_1", "L A; LIG B 1; K 1 0; S; L 1; K B 1; S", "AB", "1(AB)"),
    ("single_lig_2", "L A; /LIG B 1; K 1 0; S; L 1; K B 1; S", "AB", "A k0 1(B)"),
    ("single_lig_3", "L A; /LIG> B 1; K 1 0; S; L 1; K B 1; S", "AB", "A 1(B)"),
    ("single_lig_4", "L A; LIG/ B 1; K 1 0; S; L 1; K B 1; S", "AB", "1(A) k1 B"),
    ("single_lig_5", "L A; LIG/> B 1; K 1 0; S; L 1; K B 1; S", "AB", "1(A) B"),
    ("single_lig_6", "L A; /LIG/ B 1; K 1 0; S; L 1; K B 1; S", "AB", "A k0 1() k1 B"),
    ("single_lig_7", "L A; /LIG/> B 1; K 1 0; S; L 1; K B 1; S", "AB", "A 1() k1 B"),
    ("single_lig_8", "L A; /LIG/>> B 1; K 1 0; S; L 1; K B 1; S", "AB", "A 1() B"),
    ("no_op_lig", "L A; LIG/> B A; S", "AB", "A(A) B"),
    ("multiple_lig_1", "L A; LIG B 1; L 1; LIG C 2; S", "ABC", "2(ABC)"),
    ("multiple_lig_2", "L A; /LIG/ B 1; L 1; LIG B 2; S", "AB", "A 2(B)"),
    ("multiple_lig_3", "L A; LIG/ A 1; S", "AAAAA", "1(A) 1(A) 1(A) 1(A) A"),
    ("multiple_lig_4", "L A; LIG A A; S", "AAAAAA", "A(AAAAAA)"),
    ("multiple_lig_5", "L A; /LIG B 1; LIG/ 1 2; S", "AB", "2(A) 1(B)"),
    ("multiple_lig_6", "L A; /LIG B 1; LIG/ 1 2; L 2; LIG 1 3; S", "AB", "3(AB)"),
    ("multiple_lig_7", "L A; LIG B 1; S; L 1; /LIG/>> C 2; S", "ABC", "1(AB) 2() C"),
    ("kern_after_lig_1", "L A; LIG B 1; S; L 1; K C 0", "ABC", "1(AB) k0 C"),
    ("kern_after_lig_2", "L A; LIG B 1; S; L 1; K A 0", "ABAB", "1(AB) k0 1(AB)"),
    ("left_boundary_char_1", "L |; LIG A 1", "A", "1(<|A)"),
    ("left_boundary_char_2", "L |; /LIG/ A 1; /LIG/ 1 2", "A", "2(<|) 1() A"),
    ("left_boundary_char_3", "L |; /LIG/ A 1", "A", "1(<|) A"),
    ("left_boundary_char_4", "L |; /LIG A 1", "A", "1(<|A)"),
    ("left_boundary_char_5", "L |; /LIG> A 1", "A", "1(<|A)"),
    ("left_boundary_char_6", "L |; LIG/ A 1", "A", "1(<|) A"),
    ("left_boundary_char_7", "L |; LIG/> A 1", "A", "1(<|) A"),
    ("left_boundary_char_8", "L |; /LIG/> A 1", "A", "1(<|) A"),
    ("left_boundary_char_9", "L |; /LIG/>> A 1", "A", "1(<|) A"),
    ("right_boundary_char_lig_1", "L A; LIG R 1; S", "A", "1(A|>)"),
    ("right_boundary_char_lig_2", "L A; /LIG R B; S", "A", "A B(|>)"),
    ("right_boundary_char_lig_3", "L A; /LIG> R B; S", "A", "A B(|>)"),
    ("right_boundary_char_lig_4", "L A; /LIG/ R B; S", "A", "A B(|>)"),
    ("right_boundary_char_lig_5", "L A; LIG/ R B; S", "A", "B(A|>)"),
    ("right_boundary_char_lig_6", "L A; LIG/> R B; S", "A", "B(A|>)"),
    ("right_boundary_char_lig_7", "L A; /LIG/> R B; S", "A", "A B(|>)"),
    ("right_boundary_char_lig_8", "L A; /LIG/>> R B; S", "A", "A B(|>)"),
    ("right_boundary_char_lig_9", "L A; LIG R B; L B; LIG R C; S", "A", "B(A|>)"),
    ("right_boundary_char_lig_10", "L A; LIG/ R B; L B; LIG/ R C; S", "A", "C(A|>)"),
    ("right_boundary_char_lig_11", "L A; LIG R B; L B; LIG/ R C; S", "A", "B(A|>)"),
    ("right_boundary_char_lig_12", "L A; LIG/ R B; L B; LIG R C; S", "A", "C(A|>)"),
    ("right_boundary_char_kern_1", "L A; K R 0; S", "A", "A k0"),
    ("right_boundary_char_kern_2", "L A; LIG/ R B; L B; LIG/ R C; L C; K R 0; S", "A", "C(A|>) k0"),
    ("right_boundary_char_kern_3", "L A; LIG B C; L C; K R 0; S", "AB", "C(AB) k0"),
];

/// Loop verdicts. The first five are recorded from Knuth's TFtoPL in the repository's corpus
/// (crates/tfm/corpus/originals/<name>.plst + .stderr.txt, used by tfm-bin/tests/convert.rs); the
/// others are derived by hand from the definition in tftopl.web §88. (name, program, loops?)
const LOOP_RECORDED: &[(&str, &str, bool)] = &[
    ("left-boundary-char-infinite-loop", "L |; /LIG P Q; /LIG Q P; S", true),
    ("right-boundary-char-creates-infinite-loop-a", "L Q; LIG B P; /LIG/ P P; S", true),
    ("right-boundary-char-breaks-infinite-loop-a", "L Q; /LIG/ R P; S", false),
    ("infinite-loop-error-ordering-a", "L A; L B; LIG/ C B; S", true),
    ("infinite-loop-error-ordering-d", "L A; L B; L C; LIG/ D C; S", true),
    // ligkern/mod.rs module documentation: (x,y) -> (z,y) -> (x,y)
    ("doc_swap", "L x; LIG/ y z; S; L z; LIG/ y x; S", true),
    ("self_both", "L A; /LIG/ A A; S", true),
    ("self_right_z", "L A; /LIG B B; S", true),
    ("move_right_ok", "L A; /LIG/>> A A; S", false),
    ("lig_ok", "L A; LIG A A; S", false),
    ("retain_right_moves_ok", "L A; LIG/> B A; S", false),
];

fn self_validate(ctx: &mut Ctx) {
    for (name, prog, word, want) in TEX_RECORDED {
        let font = pl_program(prog);
        let got = lk::run(&font, word.as_bytes(), true, font.bchar, 1000).map(|r| r.nodes);
        let want = parse_nodes(want);
        if got.as_ref() != Some(&want) {
            ctx.machinery_error(format!("model self-validation: ligkern test `{name}`: TeX recorded [{}], model gives [{}]", render_nodes(&want), got.map(|g| render_nodes(&g)).unwrap_or("<budget>".into())));
        }
    }
    for (name, prog, want) in LOOP_RECORDED {
        let font = pl_program(prog);
        let k = lk::knuth_loop(&font).is_some();
        let s = !lk::looping_pairs(&font, SIM_BUDGET).is_empty();
        if k != *want || s != *want {
            ctx.machinery_error(format!("model self-validation: loop case `{name}`: expected loop={want}, TFtoPL f(x,y) gives {k}, simulation gives {s}"));
        }
    }
}

// ------------------------------------------------------------------ main

fn rbc_of(i: u64) -> Option<u8> {
    [None, Some(b'c'), Some(b'a')][i as usize]
}

fn main() {
    let mut ctx = Ctx::new("C05", Level::Exploration);
    ctx.assume("every character of the alphabet exists in the font (no char_warning path; false_bchar = non_char, TeX §576)");
    ctx.assume("how TeX distributes a ligature's original characters and boundary flags over several ligature nodes is not compared node by node (node bookkeeping); compared are: the glyphs and kerns in order, that a glyph TeX holds in a ligature node is reported as a ligature, and the spelling of the word by plain characters and ligature originals with the two boundaries as pseudo-characters (a boundary flag is set iff TeX set it, in the same place of the spelling); exact node agreement is counted as an outcome class");
    ctx.assume("kern amounts are compared after scaling by the design size with TeX §571-572 store_scaled");
    ctx.assume("TFM route: TeX refuses to load a font whose entry byte or restart address lies outside the lig/kern array (§573); the reference interpreter gives such a character no program, which is what is expected of the compiled program too");
    ctx.assume("words are run only on programs without an infinite loop; for looping programs the loop verdict and the reported pairs are checked");
    self_validate(&mut ctx);
    let sh = Shared { machinery: Mutex::new(vec![]) };
    let max_rules = ctx.pick(2usize, 3usize);
    let space = Space::new(max_rules);
    let space2 = Space::new(2);
    let words = words_upto(5);
    let words_short = words_upto(4);

    if let Some((_fam, case)) = ctx.replay_case() {
        let mut acc = Acc::default();
        if case["kind"] == "tfm-route" {
            let words: Vec<lk::Word> = case["words"].as_array().map(|a| a.iter().map(|w| [w[0].as_u64().unwrap_or(0) as u8, w[1].as_u64().unwrap_or(0) as u8, w[2].as_u64().unwrap_or(0) as u8, w[3].as_u64().unwrap_or(0) as u8]).collect()).unwrap_or_default();
            let entries: Vec<(u8, u8)> = case["entries"].as_array().map(|a| a.iter().map(|e| (e[0].as_u64().unwrap_or(0) as u8, e[1].as_u64().unwrap_or(0) as u8)).collect()).unwrap_or_default();
            check_tfm_route(0, &words, &entries, &words_upto(3), &mut acc, &sh);
            ctx.finish_replay(acc);
        }
        let rules: Vec<Rule> = case["rules"].as_array().map(|a| a.iter().map(|r| Rule { left: r[0].as_u64().unwrap() as u8, right: r[1].as_u64().unwrap() as u8, op: r[2].as_u64().unwrap() as u8 }).collect()).unwrap_or_default();
        let rbc = case["rbc"].as_u64().map(|c| c as u8);
        if let Some(a) = case["alphabet"].as_array() {
            if a.len() == 3 {
                REMAP.with(|m| m.set([a[0].as_u64().unwrap_or(97) as u8, a[1].as_u64().unwrap_or(98) as u8, a[2].as_u64().unwrap_or(99) as u8]));
            }
        }
        let layout = LAYOUTS[case["layout"].as_u64().unwrap_or(0) as usize];
        let word: Vec<u8> = case["word"].as_str().unwrap_or("").as_bytes().to_vec();
        let only = if case["kind"] == "run" { Some((word.as_slice(), case["lb"].as_bool().unwrap_or(true), case["override"].as_u64().map(|c| c as u8))) } else { None };
        if layout == Layout::StopWord {
            check_stop_word_program(0, &rules, rbc, &words_short, only, &mut acc, &sh);
        } else {
            check_program(0, &rules, rbc, layout, &words, only, &mut acc, &sh, false);
        }
        for m in sh.machinery.lock().unwrap().iter() {
            eprintln!("MACHINERY-ERROR C05: {m}");
        }
        ctx.finish_replay(acc);
    }

    // F1: all rule sets, consecutive layout
    {
        let n = space.len() * 3;
        let (sp, w, shr) = (&space, &words, &sh);
        ctx.family(
            "programs-consecutive",
            &format!(
                "every set of <= {max_rules} rules with distinct (left,right), left in {{boundary,a,b}}, right in {{a,b,boundary}}, op in {{4 kerns (0.1 and 0 by value, -0.25 and 0 by index), 8 ligature forms x inserted a/b/c}}; boundarychar in {{none,c,a}}; one chain per left character; x every word over {{a,b}} of length 1..{} x 3 modes (left boundary on/off, right_boundary_override b)",
                words.last().map(|w| w.len()).unwrap_or(0)
            ),
            n,
            |i, acc| {
                let rules = sp.rules(i / 3);
                check_program(i, &rules, rbc_of(i % 3), Layout::Consecutive, w, None, acc, shr, false);
            },
        );
    }
    // F2: the same rule sets (<= 2 rules) in the other chain layouts, except the stop word
    {
        let nl = 4u64; // Padded, SkipForeign, FallThrough, SharedTail
        let n = space.len() * 3 * nl;
        let words_f2 = words_upto(4);
        let (sp, w, shr) = (&space, &words_f2, &sh);
        ctx.family(
            "programs-layouts",
            &format!("every set of <= {max_rules} rules x boundarychar x 4 chain layouts (300 unreachable instructions in front so that entry points exceed 255; SKIP 1 over a foreign instruction; chains falling through into the next chain; character c entering a chain at its last instruction) x every word of length 1..4 x 3 modes"),
            n,
            |i, acc| {
                let d = vcore::digits(i, &[sp.len(), 3, nl]);
                let rules = sp.rules(d[0]);
                check_program(i, &rules, rbc_of(d[1]), LAYOUTS[1 + d[2] as usize], w, None, acc, shr, false);
            },
        );
    }
    // F2b (quick only; the thorough tier has the whole 3-rule space): 3 rules over a narrow op menu
    if ctx.quick() {
        const NARROW: [u8; 10] = [0, 2, 6, 9, 12, 15, 18, 21, 24, 27]; // kern #0, zero kern #2 and the 8 forms inserting c
        let sp3 = Space::new(3);
        let combos = sp3.combos[3].clone();
        let n = combos.len() as u64 * 1000 * 3;
        let (w, shr, cb) = (&words_short, &sh, &combos);
        ctx.family("programs-3-rules-narrow", "every set of exactly 3 rules with distinct (left,right) and op in {kern 0.1, zero kern, 8 ligature forms inserting c} x boundarychar x every word of length 1..4 x 3 modes, consecutive layout", n, |i, acc| {
            let d = vcore::digits(i, &[cb.len() as u64, 10, 10, 10, 3]);
            let rules: Vec<Rule> = cb[d[0] as usize].iter().zip(&d[1..4]).map(|(slot, o)| Rule { left: slot / 3, right: slot % 3, op: NARROW[*o as usize] }).collect();
            check_program(i, &rules, rbc_of(d[4]), Layout::Consecutive, w, None, acc, shr, false);
        });
    }
    // F2c: the <= 2-rule space over 8-bit alphabets
    {
        let maps: [[u8; 3]; 2] = [[b'a', 0xE9, 0xC6], [0x7F, 0x80, 0xFF]];
        let n = space2.len() * 3 * maps.len() as u64;
        let (sp, w, shr) = (&space2, &words_short, &sh);
        ctx.family("programs-8bit", "every set of <= 2 rules x boundarychar x 2 alphabets in which a,b,c stand for {a, 0xE9, 0xC6} resp. {0x7F, 0x80, 0xFF} (8-bit letters in the word, 8-bit inserted ligature glyphs, boundary characters 0xC6 / 0x7F / 0xFF / a) x every word of length 1..4 x 3 modes, consecutive layout", n, |i, acc| {
            let d = vcore::digits(i, &[sp.len(), 3, maps.len() as u64]);
            REMAP.with(|m| m.set(maps[d[2] as usize]));
            check_program(i, &sp.rules(d[0]), rbc_of(d[1]), Layout::Consecutive, w, None, acc, shr, false);
            REMAP.with(|m| m.set([b'a', b'b', b'c']));
        });
    }
    // F2d: the raw-TFM route (File::deserialize + compile_from_tfm_file -> unpack_entrypoint)
    {
        // word options: 6 kern instructions (skip 0/1/128 x right a/b, own kern), 2 ligatures (=: c, stop, right a/b),
        // 5 restart words [254,0,0,t], t in 0..=4 (4 = out of range)
        let radices: Vec<u64> = vec![13, 13, 13, 13, 5, 6];
        let n = vcore::product(&radices);
        let run_words = words_upto(ctx.pick(2, 3));
        let (rd, rw, shr) = (&radices, &run_words, &sh);
        ctx.family("tfm-route-redirect-tables", &format!("every lig/kern array of 4 words (kern instruction with skip byte 0/1/128, right character a/b and its own amount; ligature =: c with right character a/b; restart word [254,0,0,t], t in 0..=4 incl. out of range) x entry byte of a in 0..=4 x entry byte of b in {{none,0..=4}}, written as a TFM file, read with File::deserialize and compiled with compile_from_tfm_file; every word of length 1..{} over {{a,b}} with and without left boundary", run_words.last().map(|w| w.len()).unwrap_or(0)), n, |i, acc| {
            let d = vcore::digits(i, rd);
            let words: Vec<lk::Word> = d[..4]
                .iter()
                .enumerate()
                .map(|(k, o)| match *o {
                    0..=5 => [[0u8, 1, 128][(*o % 3) as usize], [b'a', b'b'][(*o / 3) as usize], 128, k as u8],
                    6 | 7 => [128, [b'a', b'b'][(*o - 6) as usize], 0, b'c'],
                    t => [254, 0, 0, (t - 8) as u8],
                })
                .collect();
            let mut entries = vec![(b'a', d[4] as u8)];
            if d[5] > 0 {
                entries.push((b'b', (d[5] - 1) as u8));
            }
            check_tfm_route(i, &words, &entries, rw, acc, shr);
        });
    }
    // F2e: the property-list route (pl::File::from_pl_source_code + compile_from_pl_file)
    {
        let n = space2.len() * 3 * 3;
        let lay = [Layout::Consecutive, Layout::FallThrough, Layout::SkipForeign];
        let (sp, w, shr) = (&space2, &words_upto(3), &sh);
        ctx.family("pl-route", "every set of <= 2 rules x boundarychar x 3 chain layouts written as a property list (LIGTABLE with LABEL / SKIP / STOP, BOUNDARYCHAR), parsed with pl::File::from_pl_source_code and compiled with compile_from_pl_file; every word of length 1..3 x left boundary on/off", n, |i, acc| {
            let d = vcore::digits(i, &[sp.len(), 3, 3]);
            let rules = sp.rules(d[0]);
            let Some(p) = build(&rules, rbc_of(d[1]), lay[d[2] as usize]) else {
                acc.skipped += 1;
                return;
            };
            let font = model_font(&p);
            if !lk::looping_pairs(&font, SIM_BUDGET).is_empty() {
                acc.skipped += 1; // PLtoTF clears a looping LIGTABLE: the loop verdict is compared in the other families
                return;
            }
            let pl = pl_abc(&pl_ligtable(&p));
            acc.eval();
            let compiled = catch(|| {
                let (f, warnings) = tfm::pl::File::from_pl_source_code(&pl);
                (CompiledProgram::compile_from_pl_file(&f), warnings.len())
            });
            let case = |x: Value| case_json(&rules, p.rbc, lay[d[2] as usize], x);
            let ((cp, errs), nwarn) = match compiled {
                Ok(x) => x,
                Err(pn) => {
                    acc.fail(i, case(json!({"kind": "pl-route", "pl": pl})), "returns", pn.describe(), "from_pl_source_code / compile_from_pl_file panicked");
                    return;
                }
            };
            if nwarn > 0 || !errs.is_empty() {
                acc.fail(i, case(json!({"kind": "pl-route", "pl": pl})), "a loop-free program: no warning, no loop", format!("{nwarn} warning(s), {errs:?}"), "loop verdict differs from direct interpretation (PL route)");
                return;
            }
            acc.count("pl_route_program_compiled");
            for wd in w.iter() {
                for lb in [true, false] {
                    acc.eval();
                    let Some(m) = lk::run(&font, wd, lb, font.bchar, SIM_BUDGET) else { continue };
                    if !m.fired.is_empty() {
                        acc.nontrivial();
                    }
                    let want: Vec<Out> = m.nodes.iter().map(|n| match n {
                        Node::Char(c) | Node::Lig { c, .. } => Out::G(*c),
                        Node::Kern(k) => Out::K(scaled_kern(*k)),
                    }).collect();
                    match impl_run(&cp, wd, lb, None) {
                        Err(pn) => acc.fail(i, case(json!({"kind": "pl-route", "pl": pl, "word": String::from_utf8_lossy(wd), "lb": lb})), render_nodes(&m.nodes), pn.describe(), "run panicked (PL route)"),
                        Ok(got) => {
                            if got.seq != want || got.spelled != *wd {
                                acc.fail(i, case(json!({"kind": "pl-route", "pl": pl, "word": String::from_utf8_lossy(wd), "lb": lb})), format!("{} = {:?}", render_nodes(&m.nodes), want), format!("{} = {:?}", render_nodes(&got.nodes), got.seq), "characters / ligature glyphs / kerns differ from direct interpretation (PL route)");
                            } else {
                                acc.class("agree (PL route)");
                            }
                        }
                    }
                }
            }
        });
    }
    // F2f: one byte of one instruction swept over all 256 values (TFM route): every skip byte, next character,
    //      op byte (nonstandard ligature codes, kern indices with a high byte) and remainder (inserted glyph 0..255)
    {
        let bases: [[lk::Word; 2]; 3] = [[[0, b'b', 0, b'c'], [128, b'b', 128, 1]], [[0, b'b', 128, 0], [128, b'a', 3, b'c']], [[1, b'a', 7, b'b'], [128, b'b', 11, b'a']]];
        let n = (bases.len() * 2 * 4 * 256) as u64;
        let (bs, shr) = (&bases, &sh);
        ctx.family("tfm-route-byte-sweep", "3 two-word programs x each of the 8 bytes set to every value 0..255 (skip byte: SKIP n, stop words 129..255; next character 0..255; op byte: all ligature codes incl. nonstandard ones, kern indices 256*(op-128)+rem beyond the table; remainder: every inserted glyph), entry of a at word 0 and of b at word 1, through File::deserialize + compile_from_tfm_file; words a, b, ab, ba, aa, bb, a?, ?a, ab?, where ? is the swept next character / glyph", n, |i, acc| {
            let d = vcore::digits(i, &[bs.len() as u64, 2, 4, 256]);
            let mut words: Vec<lk::Word> = bs[d[0] as usize].to_vec();
            words[d[1] as usize][d[2] as usize] = d[3] as u8;
            let x = d[3] as u8;
            let run_words: Vec<Vec<u8>> = vec![vec![b'a'], vec![b'b'], vec![b'a', b'b'], vec![b'b', b'a'], vec![b'a', b'a'], vec![b'b', b'b'], vec![b'a', x], vec![x, b'a'], vec![b'a', b'b', x]];
            let w = words[d[1] as usize];
            if w[0] <= 128 && w[2] < 128 && ![0u8, 1, 2, 3, 5, 6, 7, 11].contains(&w[2]) {
                acc.count("nonstandard_ligature_code");
            }
            if w[0] <= 128 && w[2] > 128 {
                acc.count("kern_index_with_high_byte");
            }
            if (129..254).contains(&w[0]) {
                acc.count("stop_word_with_skip_byte_129_to_253");
            }
            // characters c and d exist in the tiny font; an inserted glyph or next character outside a..d is a
            // character TeX would refuse at load time (§573 check_existence): both sides just use the byte
            check_tfm_route(i, &words, &[(b'a', 0), (b'b', 1)], &run_words, acc, shr);
        });
    }
    // F2g: the consumer of CompiledProgram::run: boxworks_text::TextPreprocessorImpl::add_word / add_text
    {
        use boxworks::TextPreprocessor as _;
        let lay = [Layout::Consecutive, Layout::FallThrough, Layout::SkipForeign];
        let n = space2.len() * 3 * 3;
        // a font file with the seven parameters register_font needs (space, stretch, shrink, …, extra space)
        let mut font_bytes = tiny_tfm(&[], &[]);
        {
            // np = 7: patch the size table and append the parameters
            let lf = u16::from_be_bytes([font_bytes[0], font_bytes[1]]) + 7;
            font_bytes[0..2].copy_from_slice(&lf.to_be_bytes());
            font_bytes[22..24].copy_from_slice(&7u16.to_be_bytes());
            for k in 0..7i32 {
                font_bytes.extend(((k + 1) << 18).to_be_bytes());
            }
        }
        let font_file = tfm::File::deserialize(&font_bytes).0.expect("harness font");
        let (sp, w, shr, ff) = (&space2, &words_upto(3), &sh, &font_file);
        ctx.family("add-word-route", "every set of <= 2 rules (left-boundary and right-boundary rules included) x boundarychar x 3 chain layouts, compiled and registered as the font of a boxworks_text::TextPreprocessorImpl; every word of length 1..3 through add_word and through add_text: the character / ligature / kern nodes of the horizontal list are compared with the reference interpreter (discretionaries ignored)", n, |i, acc| {
            let d = vcore::digits(i, &[sp.len(), 3, 3]);
            let rules = sp.rules(d[0]);
            let Some(p) = build(&rules, rbc_of(d[1]), lay[d[2] as usize]) else {
                acc.skipped += 1;
                return;
            };
            let font = model_font(&p);
            if !lk::looping_pairs(&font, SIM_BUDGET).is_empty() {
                acc.skipped += 1;
                return;
            }
            let (prog, eps, kerns) = to_program(&p);
            let Ok((cp, _)) = catch(|| CompiledProgram::compile(&prog, FixWord(DESIGN_SIZE), &kerns, eps.clone())) else {
                return; // compile panics are reported by the other families
            };
            for wd in w.iter() {
                let Some(m) = lk::run(&font, wd, true, font.bchar, SIM_BUDGET) else { continue };
                let want: Vec<Out> = m.nodes.iter().map(|n| match n {
                    Node::Char(c) | Node::Lig { c, .. } => Out::G(*c),
                    Node::Kern(k) => Out::K(scaled_kern(*k)),
                }).collect();
                let boundary_rule = m.fired.iter().any(|f| f.left_boundary || f.right_boundary);
                let text: String = wd.iter().map(|c| *c as char).collect();
                for via_text in [false, true] {
                    acc.eval();
                    if !m.fired.is_empty() {
                        acc.nontrivial();
                    }
                    let cp2 = cp.clone();
                    let got = catch(|| {
                        let mut tp = boxworks_text::TextPreprocessorImpl::new(Default::default());
                        tp.register_font(0, ff, cp2);
                        tp.activate_font(0);
                        let mut list = vec![];
                        if via_text {
                            tp.add_text(&text, &mut list);
                        } else {
                            tp.add_word(&text, &mut list);
                        }
                        let (mut seq, mut spelled) = (vec![], String::new());
                        let mut kinds: Vec<Option<String>> = vec![]; // per glyph: Some(originals) for a ligature node
                        for h in &list {
                            match h {
                                boxworks::ds::Horizontal::Char(c) => {
                                    seq.push(Out::G(c.char as u8));
                                    spelled.push(c.char);
                                    kinds.push(None);
                                }
                                boxworks::ds::Horizontal::Ligature(l) => {
                                    seq.push(Out::G(l.char as u8));
                                    spelled.push_str(&l.original_chars);
                                    kinds.push(Some(l.original_chars.to_string()));
                                }
                                boxworks::ds::Horizontal::Kern(k) => seq.push(Out::K(k.width.0 as i64)),
                                boxworks::ds::Horizontal::Discretionary(_) => {}
                                other => seq.push(Out::K(i64::MIN + format!("{other:?}").len() as i64)), // anything else is unexpected
                            }
                        }
                        (seq, spelled, kinds)
                    });
                    let case = || case_json(&rules, p.rbc, lay[d[2] as usize], json!({"kind": "add-word", "word": text, "via_add_text": via_text}));
                    // a glyph TeX holds in a ligature node must be a Ligature node of the list
                    let model_lig: Vec<bool> = m.nodes.iter().filter(|n| !matches!(n, Node::Kern(_))).map(|n| matches!(n, Node::Lig { .. })).collect();
                    let self_lig = m.nodes.iter().any(|n| matches!(n, Node::Lig { c, orig, left: false, right: false } if orig.len() == 1 && orig[0] == *c));
                    match got {
                        Err(pn) => acc.fail(i, case(), render_nodes(&m.nodes), pn.describe(), "add_word / add_text panicked"),
                        Ok((seq, spelled, kinds)) => {
                            if seq != want || spelled != text {
                                acc.fail(i, case(), format!("{} = {:?}", render_nodes(&m.nodes), want), format!("{seq:?} spelling {spelled:?}"), "the horizontal list of add_word differs from direct interpretation of the lig/kern program");
                            } else if model_lig.iter().zip(kinds.iter()).any(|(ml, k)| *ml && k.is_none()) {
                                acc.fail(i, case(), render_nodes(&m.nodes), format!("node kinds (None = Char node, Some(originals) = Ligature node): {kinds:?}"), "a glyph produced by a ligature command is a plain Char node in the list of add_word");
                            } else {
                                if self_lig {
                                    acc.count("ligature_glyph_equals_its_single_original_char");
                                }
                                acc.count("add_word_route_compared");
                                if wd.len() == 1 && boundary_rule {
                                    acc.count("one_char_word_with_boundary_rule");
                                }
                            }
                        }
                    }
                }
            }
        });
    }
    // F2g': histories on ONE preprocessor with TWO fonts
    {
        use boxworks::TextPreprocessor as _;
        // programs (all loop-free): none; ab -> KRN#0; ab -> LIG c; |a -> KRN#1; aa -> LIG/> b; a| -> LIG/ b (boundarychar c)
        let progs: Vec<(Vec<Rule>, Option<u8>)> = vec![
            (vec![], None),
            (vec![Rule { left: 1, right: 1, op: 0 }], None),
            (vec![Rule { left: 1, right: 1, op: 4 + 0 * 3 + 2 }], None),
            (vec![Rule { left: 0, right: 0, op: 1 }], None),
            (vec![Rule { left: 1, right: 0, op: 4 + 2 * 3 + 1 }], None),
            (vec![Rule { left: 1, right: 2, op: 4 + 1 * 3 + 1 }], Some(b'c')),
            // a left-boundary kern and a kern against the right boundary: the word `a` is `kern a kern`
            (vec![Rule { left: 0, right: 0, op: 1 }, Rule { left: 1, right: 2, op: 0 }], Some(b'c')),
        ];
        let np = progs.len() as u64;
        let hwords: [&str; 2] = ["ab", "a"];
        // ops: 0 activate_font(0), 1 activate_font(1), 2 add_word(w1), 3 add_word(w2), 4 new_paragraph
        let nhist = vcore::strings_upto(5, 3);
        let mut fb = tiny_tfm(&[], &[]);
        let lf = u16::from_be_bytes([fb[0], fb[1]]) + 7;
        fb[0..2].copy_from_slice(&lf.to_be_bytes());
        fb[22..24].copy_from_slice(&7u16.to_be_bytes());
        for k in 0..7i32 {
            fb.extend(((k + 1) << 18).to_be_bytes());
        }
        let font_file = tfm::File::deserialize(&fb).0.expect("harness font");
        let (pg, ff, sh) = (&progs, &font_file, &sh);
        ctx.family("add-word-history", "one TextPreprocessorImpl with two registered fonts (every ordered pair of 7 small programs) x every history of <= 3 operations over {activate_font(0), activate_font(1), add_word(ab), add_word(a), new_paragraph}: the WHOLE list after each add_word (node count, glyphs, ligature kind, kerns, font ids; earlier nodes unchanged) is compared with the reference interpreter under the font active at that moment", np * np * nhist, |i, acc| {
            let d = vcore::digits(i, &[np, np, nhist]);
            let hist = vcore::nth_string(5, d[2]);
            let fonts: Vec<(Font, CompiledProgram)> = [d[0], d[1]]
                .iter()
                .map(|k| {
                    let (rules, rbc) = &pg[*k as usize];
                    let p = build(rules, *rbc, Layout::Consecutive).expect("program");
                    let (prog, eps, kerns) = to_program(&p);
                    (model_font(&p), CompiledProgram::compile(&prog, FixWord(DESIGN_SIZE), &kerns, eps).0)
                })
                .collect();
            if fonts.iter().any(|f| !lk::looping_pairs(&f.0, SIM_BUDGET).is_empty()) {
                sh.machinery.lock().unwrap().push("add-word-history: a program of the menu loops".into());
                return;
            }
            acc.eval();
            let expect = |font: &Font, w: &str| -> Vec<(Out, bool)> {
                lk::run(font, w.as_bytes(), true, font.bchar, SIM_BUDGET).map(|m| m.nodes.iter().map(|n| match n {
                    Node::Char(c) => (Out::G(*c), false),
                    Node::Lig { c, .. } => (Out::G(*c), true),
                    Node::Kern(k) => (Out::K(scaled_kern(*k)), false),
                }).collect()).unwrap_or_default()
            };
            // counter from the case: the same word is added under both fonts and the fonts treat it differently
            let mut seen: Vec<(u64, usize)> = vec![];
            let mut active = 0usize;
            for op in &hist {
                match op {
                    0 | 1 => active = *op as usize,
                    2 | 3 => seen.push((*op, active)),
                    _ => {}
                }
            }
            let collide = seen.iter().any(|(w, f)| seen.iter().any(|(w2, f2)| w == w2 && f != f2 && expect(&fonts[0].0, hwords[(*w - 2) as usize]) != expect(&fonts[1].0, hwords[(*w - 2) as usize])));
            if seen.len() >= 1 {
                acc.nontrivial();
            }
            let (c0, c1) = (fonts[0].1.clone(), fonts[1].1.clone());
            let h2 = hist.clone();
            let got = catch(move || {
                let mut tp = boxworks_text::TextPreprocessorImpl::new(Default::default());
                tp.register_font(0, ff, c0);
                tp.register_font(1, ff, c1);
                let mut list = vec![];
                let mut out: Vec<Vec<(Out, bool, u32)>> = vec![];
                for op in &h2 {
                    match op {
                        0 => tp.activate_font(0),
                        1 => tp.activate_font(1),
                        4 => tp.new_paragraph(),
                        w => {
                            tp.add_word(hwords[(*w - 2) as usize], &mut list);
                            // the WHOLE list after this step
                            out.push(list.iter().filter_map(|h| match h {
                                boxworks::ds::Horizontal::Char(c) => Some((Out::G(c.char as u8), false, c.font)),
                                boxworks::ds::Horizontal::Ligature(l) => Some((Out::G(l.char as u8), true, l.font)),
                                boxworks::ds::Horizontal::Kern(k) => Some((Out::K(k.width.0 as i64), false, u32::MAX)),
                                _ => None,
                            }).collect());
                        }
                    }
                }
                out
            });
            let case = || json!({"kind": "add-word-history", "fonts": [d[0], d[1]], "history": hist, "ops": "0 activate_font(0), 1 activate_font(1), 2 add_word(ab), 3 add_word(a), 4 new_paragraph", "programs": [describe_rules(&pg[d[0] as usize].0, pg[d[0] as usize].1), describe_rules(&pg[d[1] as usize].0, pg[d[1] as usize].1)]});
            match got {
                Err(p) => acc.fail(i, case(), "returns", p.describe(), "add_word history panicked"),
                Ok(out) => {
                    let mut ok = true;
                    let mut whole: Vec<((Out, bool), usize)> = vec![]; // expected whole list so far, with font
                    let mut back_to_back = false;
                    for ((w, f), g) in seen.iter().zip(out.iter()) {
                        let add = expect(&fonts[*f].0, hwords[(*w - 2) as usize]);
                        if matches!(whole.last(), Some(((Out::K(_), _), _))) && matches!(add.first(), Some((Out::K(_), _))) {
                            back_to_back = true;
                        }
                        whole.extend(add.into_iter().map(|x| (x, *f)));
                        let want: Vec<(Out, bool)> = whole.iter().map(|x| x.0.clone()).collect();
                        let fonts_ok = whole.len() == g.len() && whole.iter().zip(g.iter()).all(|((_, wf), (_, _, gf))| *gf == u32::MAX || *gf == *wf as u32);
                        let f = &0usize; // font ids are checked through `fonts_ok`
                        let _ = f;
                        if !fonts_ok {
                            acc.fail(i, case(), format!("whole list after this add_word: {whole:?} ((glyph/kern, ligature?), font id)"), format!("{g:?} (glyph/kern, ligature?, font id)"), "the list after add_word differs from the lig/kern programs of the fonts active at each step (node count / font ids)");
                            ok = false;
                            break;
                        }
                        let same = want.len() == g.len() && want.iter().zip(g.iter()).all(|((wo, wl), (go, gl, _))| wo == go && (!*wl || *gl));
                        if !same {
                            acc.fail(i, case(), format!("whole list after add_word({}): {want:?} (glyph/kern, ligature?)", hwords[(*w - 2) as usize]), format!("{g:?} (glyph/kern, ligature?, font id)"), "the whole list after add_word differs from the lig/kern programs (earlier nodes changed, or a node missing)");
                            ok = false;
                            break;
                        }
                    }
                    if ok && collide {
                        acc.count("same_word_added_under_two_fonts_with_different_programs");
                    }
                    if ok && back_to_back {
                        acc.count("two_words_added_back_to_back_with_boundary_kerns_on_both_sides");
                    }
                }
            }
        });
    }
    // F2h: kern amounts at design sizes where TeX §572 halves z (C17 owns the arithmetic; here the kern a run emits)
    {
        let sizes: [(&str, i32); 8] = [("10pt", 10 << 20), ("1pt", 1 << 20), ("127.99999pt", (128 << 20) - 10), ("128pt", 128 << 20), ("130.0001pt", (130 << 20) + 105), ("200pt + 16 units", (200 << 20) + 16), ("700.00005pt", (700 << 20) + 52), ("2047.9999pt", (2047 << 20) + 1048471)];
        let amounts: [i32; 8] = [1, -1, 1 << 19, -(1 << 19), 1 << 20, -(1 << 20), (16 << 20) - 1, -((16 << 20) - 1)];
        let (sz, am) = (&sizes, &amounts);
        ctx.family("kern-design-sizes", "one kern rule a b -> KRN x, x in {+-0.000001, +-0.5, +-1, +-15.999999}, given by value and by index, compiled at the design sizes 10pt, 1pt, 127.99999pt, 128pt, 130.0001pt, 200pt+16 units, 700.00005pt, 2047.9999pt; the kern emitted for the word ab is compared with TeX §571-572 store_scaled in i64", 8 * 8 * 2, |i, acc| {
            let d = vcore::digits(i, &[8, 8, 2]);
            let (name, ds) = sz[d[0] as usize];
            let amount = am[d[1] as usize];
            let by_index = d[2] == 1;
            acc.eval();
            acc.nontrivial();
            let prog = Program {
                instructions: vec![Instruction { next_instruction: None, right_char: Char(b'b'), operation: if by_index { Operation::KernAtIndex(1) } else { Operation::Kern(FixWord(amount)) } }],
                left_boundary_char_entrypoint: None,
                right_boundary_char: None,
                passthrough: Default::default(),
            };
            let want = store_scaled(amount, (ds / 16) as i64);
            let got = catch(|| {
                let (cp, _) = CompiledProgram::compile(&prog, FixWord(ds), &[FixWord(7), FixWord(amount)], [(Char(b'a'), 0u16)].into_iter().collect());
                cp.run("ab").filter_map(|it| if let RunItem::Kern(k) = it { Some(k.0 as i64) } else { None }).collect::<Vec<i64>>()
            });
            let case = || json!({"kind": "kern-design-size", "design_size": name, "design_size_fixword": ds, "kern_fixword": amount, "by_index": by_index});
            if amount < 0 && ds >= 128 << 20 {
                acc.count("negative_kern_at_design_size_ge_128pt");
            }
            match (got, want) {
                (Err(p), _) => acc.fail(i, case(), format!("{want:?}"), p.describe(), "compile / run panicked"),
                (Ok(g), Some(w)) => {
                    if g != vec![w] {
                        acc.fail(i, case(), format!("one kern of {w} sp (TeX §571-572)"), format!("{g:?}"), "the kern amount differs from TeX's store_scaled at this design size");
                    } else {
                        acc.class("kern amount agrees");
                    }
                }
                (Ok(_), None) => acc.skipped += 1,
            }
        });
    }
    // F3: a word with skip byte > 128 inside a chain (TeX §1039 never executes it and stops there;
    //     lang::Operation::EntrypointRedirect documents it as an unconditional stop)
    {
        let n = space2.len() * 3;
        let (sp, w, shr) = (&space2, &words_short, &sh);
        ctx.family(
            "stop-word-in-chain",
            "every set of <= 2 rules x boundarychar, with an unconditional-stop word (skip byte 255, op/remainder bytes that read as `LIG c`) as second word of every chain x every word of length 1..4 x 3 modes",
            n,
            |i, acc| {
                let rules = sp.rules(i / 3);
                if rules.is_empty() {
                    acc.skipped += 1;
                    return;
                }
                acc.count("stop_word_in_chain");
                check_stop_word_program(i, &rules, rbc_of(i % 3), w, None, acc, shr);
            },
        );
    }
    for m in sh.machinery.lock().unwrap().iter().take(5) {
        ctx.machinery_error(m.clone());
    }
    ctx.require("loop_programs", "programs with an infinite loop");
    ctx.require("loop_only_through_left_boundary", "programs whose every non-terminating pair starts at the left boundary");
    ctx.require("instruction_fired_twice_in_one_word", "a rule re-entered within one word (on its own output or at a later position)");
    ctx.require("ligature_of_a_ligature", "a ligature command fired on a character that was itself inserted by a ligature command");
    ctx.require("left_boundary_rule_fired", "a left boundary rule fired");
    ctx.require("right_boundary_rule_fired", "a rule fired against the right boundary character");
    ctx.require("ligature_glyph_equals_its_single_original_char", "add_word route: a ligature node whose glyph is its single original character, no boundary involved (e.g. LIG/> re-inserting the character it deletes)");
    ctx.require("two_words_added_back_to_back_with_boundary_kerns_on_both_sides", "add_word history: two words added in a row without a space, the first ending in a right-boundary kern and the second starting with a left-boundary kern");
    ctx.require("same_word_added_under_two_fonts_with_different_programs", "add_word history: the same word is added under both fonts of one preprocessor and the two programs treat it differently");
    ctx.require("add_word_route_compared", "words whose horizontal list from add_word / add_text was compared");
    ctx.require("one_char_word_with_boundary_rule", "a one-character word for which a left- or right-boundary rule fires, through add_word");
    ctx.require("negative_kern_at_design_size_ge_128pt", "a negative kern emitted at a design size of 128pt or more");
    ctx.require("pl_route_program_compiled", "programs compiled through the property-list route");
    ctx.require("nonstandard_ligature_code", "an executed ligature instruction with a nonstandard op code (TeX: treated as =:)");
    ctx.require("kern_index_with_high_byte", "a kern instruction whose index needs the high byte");
    ctx.require("stop_word_with_skip_byte_129_to_253", "a word with skip byte in 129..253");
    ctx.require("tfm_route_entry_is_restart_word", "TFM route: a character's entry byte names a restart word");
    ctx.require("tfm_route_restart_target_is_again_a_stop_word", "TFM route: the restart target is itself a word with skip byte > 128 (TeX restarts once: empty program)");
    ctx.require("tfm_route_restart_target_out_of_range", "TFM route: the restart target lies outside the array");
    ctx.require("word_with_8bit_character", "a word containing a character >= 0x80");
    ctx.require("ligature_glyph_8bit_emitted", "a ligature glyph >= 0x80 is part of the expected output");
    ctx.require("rule_fired_next_to_8bit_glyph", "two or more commands fired in a run whose output has an 8-bit glyph");
    ctx.require("zero_kern_emitted", "a kern of amount zero is part of the expected output");
    ctx.require("instruction_beyond_255_fired", "an instruction at an index above 255 fired");
    ctx.finish("one evaluation per compiled program (loop verdict) and per (loop-free program, word, mode) run; non-trivial = the program has a loop, resp. the word triggers at least one lig/kern command in the reference interpreter");
}
