//! C05 — not built yet.
fn main() {
    eprintln!("c05: check not built yet");
    std::process::exit(2);
}
