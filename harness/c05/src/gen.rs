//! Generator of small lig/kern programs as raw instruction words (shared by c05 and c11 through
//! `#[path]`). Pure: no repository types.
#![allow(dead_code)]

use reftex::ligkern as lk;
use std::fmt::Write as _;

// ------------------------------------------------------------------ the program space

pub const LETTERS: [u8; 3] = [b'a', b'b', b'c'];
/// op bytes of the eight ligature forms: =: =:| =:|> |=: |=:> |=:| |=:|> |=:|>>
pub const FORMS: [u8; 8] = [0, 1, 5, 2, 6, 3, 7, 11];
pub const FORM_NAMES: [&str; 8] = ["LIG", "LIG/", "LIG/>", "/LIG", "/LIG>", "/LIG/", "/LIG/>", "/LIG/>>"];
/// kern table (fix_words): 0.1, -0.25 and twice 0 design units (a zero kern is legal and blocks later
/// rules for its pair); design size 10pt. Kerns #0 and #3 are given by value, #1 and #2 by index.
pub const KERNS: [i32; 4] = [104858, -262144, 0, 0];
pub const DESIGN_SIZE: i32 = 10 << 20;
pub const N_KERN_OPS: u8 = 4;
pub const N_OPS: u64 = 4 + 8 * 3;
pub const SIM_BUDGET: usize = 10_000;

/// left: 0 = left boundary, 1 = a, 2 = b; right: 0 = a, 1 = b, 2 = right boundary; op < N_OPS
#[derive(Clone, Copy, Debug, PartialEq, Eq)]
pub struct Rule {
    pub left: u8,
    pub right: u8,
    pub op: u8,
}

#[derive(Clone, Debug)]
pub struct Prog {
    pub words: Vec<lk::Word>,
    /// (character, index of its first instruction)
    pub starts: Vec<(u8, usize)>,
    pub lb_start: Option<usize>,
    pub rbc: Option<u8>,
}

pub fn op_bytes(op: u8) -> (u8, u8) {
    if op < N_KERN_OPS {
        (128, op)
    } else {
        let k = op - N_KERN_OPS;
        (FORMS[(k / 3) as usize], LETTERS[(k % 3) as usize])
    }
}
pub fn describe_op(op: u8) -> String {
    if op < N_KERN_OPS {
        format!("KRN#{op}{}", if KERNS[op as usize] == 0 { "(zero)" } else { "" })
    } else {
        let k = op - N_KERN_OPS;
        format!("{} {}", FORM_NAMES[(k / 3) as usize], LETTERS[(k % 3) as usize] as char)
    }
}
pub fn describe_rules(rules: &[Rule], rbc: Option<u8>) -> String {
    let l = |x: u8| ["|", "a", "b"][x as usize];
    let r = |x: u8| ["a", "b", "|"][x as usize];
    let mut s: Vec<String> = rules.iter().map(|q| format!("{}{} -> {}", l(q.left), r(q.right), describe_op(q.op))).collect();
    s.push(format!("boundarychar={}", rbc.map(|c| (c as char).to_string()).unwrap_or("none".into())));
    s.join("; ")
}

pub fn right_code(r: u8, rbc: Option<u8>) -> Option<u8> {
    match r {
        0 => Some(b'a'),
        1 => Some(b'b'),
        _ => rbc,
    }
}

/// Layouts of the same rules as instruction chains.
#[derive(Clone, Copy, Debug, PartialEq, Eq)]
pub enum Layout {
    /// one chain per left character, consecutive instructions, STOP on the last
    Consecutive,
    /// 300 unreachable instructions in front: every entry point is > 255
    Padded,
    /// a foreign (unreachable) instruction after every instruction of a chain, skipped with SKIP 1
    SkipForeign,
    /// no STOP between the chains: a chain falls through into the chains laid out after it
    FallThrough,
    /// additionally character c enters every chain at its last instruction (shared tail)
    SharedTail,
    /// a word with skip byte 255 (unconditional stop / restart word) as *second* word of every
    /// chain, its next_char equal to that of the instruction it displaces
    StopWord,
}
pub const LAYOUTS: [Layout; 6] = [Layout::Consecutive, Layout::Padded, Layout::SkipForeign, Layout::FallThrough, Layout::SharedTail, Layout::StopWord];

pub fn build(rules: &[Rule], rbc: Option<u8>, layout: Layout) -> Option<Prog> {
    let mut words: Vec<lk::Word> = vec![];
    let mut starts = vec![];
    let mut lb_start = None;
    if layout == Layout::Padded {
        for i in 0..300u32 {
            // unreachable ligature instructions that would change every result if they were reached
            words.push([if i % 7 == 0 { 128 } else { 0 }, LETTERS[(i % 3) as usize], 0, b'c']);
        }
    }
    let mut lefts: Vec<u8> = rules.iter().map(|r| r.left).collect();
    lefts.sort();
    lefts.dedup();
    let n_lefts = lefts.len();
    for (li, l) in lefts.iter().enumerate() {
        let start = words.len();
        match l {
            0 => lb_start = Some(start),
            1 => starts.push((b'a', start)),
            _ => starts.push((b'b', start)),
        }
        let rs: Vec<&Rule> = rules.iter().filter(|r| r.left == *l).collect();
        for (i, r) in rs.iter().enumerate() {
            let next = right_code(r.right, rbc)?;
            let (op, rem) = op_bytes(r.op);
            let last = i + 1 == rs.len();
            let mut skip = if last { 128 } else { 0 };
            match layout {
                Layout::SkipForeign => {
                    if !last {
                        skip = 1;
                    }
                    words.push([skip, next, op, rem]);
                    // the foreign instruction: same right character, a different effect
                    words.push([128, right_code(rs[(i + 1) % rs.len()].right, rbc)?, 0, b'c']);
                    continue;
                }
                Layout::FallThrough => {
                    if last && li + 1 < n_lefts {
                        skip = 0;
                    }
                }
                Layout::StopWord => {
                    words.push([if i == 0 { 0 } else { skip }, next, op, rem]);
                    if i == 0 {
                        // displaces the second rule of the chain (or, for a one-rule chain, a pair
                        // that has no rule): TeX never executes it and stops there (§1039)
                        let nc = if rs.len() > 1 { right_code(rs[1].right, rbc)? } else { b'b' };
                        words.push([255, nc, 0, b'c']);
                    }
                    continue;
                }
                _ => {}
            }
            words.push([skip, next, op, rem]);
        }
        if layout == Layout::SharedTail {
            // c shares the tail of the first chain only (one entry point per character)
            if li == 0 {
                starts.push((b'c', words.len() - 1));
            }
        }
    }
    Some(Prog { words, starts, lb_start, rbc })
}

// ------------------------------------------------------------------ enumeration of rule sets

pub struct Space {
    /// combos[k] = all k-subsets of the 9 (left,right) slots in lexicographic order
    pub combos: Vec<Vec<Vec<u8>>>,
    /// offsets[k] = index of the first set with k rules
    pub offsets: Vec<u64>,
    pub max_rules: usize,
}
impl Space {
    pub fn new(max_rules: usize) -> Space {
        let mut combos = vec![];
        for k in 0..=max_rules {
            let mut v = vec![];
            fn rec(start: u8, k: usize, cur: &mut Vec<u8>, out: &mut Vec<Vec<u8>>) {
                if cur.len() == k {
                    out.push(cur.clone());
                    return;
                }
                for s in start..9 {
                    cur.push(s);
                    rec(s + 1, k, cur, out);
                    cur.pop();
                }
            }
            rec(0, k, &mut vec![], &mut v);
            combos.push(v);
        }
        let mut offsets = vec![0u64];
        for k in 0..=max_rules {
            let n = combos[k].len() as u64 * N_OPS.pow(k as u32);
            offsets.push(offsets[k] + n);
        }
        Space { combos, offsets, max_rules }
    }
    pub fn len(&self) -> u64 {
        self.offsets[self.max_rules + 1]
    }
    pub fn rules(&self, idx: u64) -> Vec<Rule> {
        let k = (0..=self.max_rules).find(|k| idx < self.offsets[k + 1]).expect("index in range");
        let r = idx - self.offsets[k];
        let nops = N_OPS.pow(k as u32);
        let combo = &self.combos[k][(r / nops) as usize];
        let ops = vcore::digits(r % nops, &vec![N_OPS; k]);
        combo.iter().zip(ops).map(|(slot, op)| Rule { left: slot / 3, right: slot % 3, op: op as u8 }).collect()
    }
}

pub fn words_upto(maxlen: usize) -> Vec<Vec<u8>> {
    let mut out = vec![];
    for len in 1..=maxlen {
        for i in 0..(1u32 << len) {
            out.push((0..len).map(|j| if (i >> (len - 1 - j)) & 1 == 0 { b'a' } else { b'b' }).collect());
        }
    }
    out
}

/// The program as a property-list LIGTABLE (+ BOUNDARYCHAR), instruction by instruction.
pub fn pl_ligtable(p: &Prog) -> String {
    let mut s = String::new();
    if let Some(c) = p.rbc {
        writeln!(s, "(BOUNDARYCHAR C {})", c as char).unwrap();
    }
    if p.words.is_empty() {
        return s;
    }
    s.push_str("(LIGTABLE\n");
    for (i, w) in p.words.iter().enumerate() {
        if p.lb_start == Some(i) {
            s.push_str(" (LABEL BOUNDARYCHAR)\n");
        }
        for (c, st) in &p.starts {
            if *st == i {
                writeln!(s, " (LABEL C {})", *c as char).unwrap();
            }
        }
        let [skip, next, op, rem] = *w;
        if op >= 128 {
            writeln!(s, " (KRN C {} R {})", next as char, ["0.1", "-0.25", "0.0", "0.0"][rem as usize]).unwrap();
        } else {
            let form = FORM_NAMES[FORMS.iter().position(|f| *f == op).expect("standard form")];
            writeln!(s, " ({form} C {} C {})", next as char, rem as char).unwrap();
        }
        match skip {
            0 => {}
            128 => s.push_str(" (STOP)\n"),
            n => writeln!(s, " (SKIP D {n})").unwrap(),
        }
    }
    s.push_str(" )\n");
    s
}

/// A property list declaring a, b, c around `extra`.
pub fn pl_abc(extra: &str) -> String {
    format!("(DESIGNSIZE R 10.0)\n{extra}(CHARACTER C a (CHARWD R 1.0))\n(CHARACTER C b (CHARWD R 1.5))\n(CHARACTER C c (CHARWD R 0.5) (CHARHT R 1.0))\n")
}

