//! C10 — not built yet.
fn main() {
    eprintln!("c10: check not built yet");
    std::process::exit(2);
}
