//! C10 — TFM and PL readers are total; PL->TFM output is always a readable TFM.
//! Engine: DEV (fault / deviation enumeration). DESIGN.md §3 C10.
//!
//! Every sweep over untrusted input runs in worker subprocesses (this binary re-executed with a
//! hidden `--worker` argument): a worker owns a contiguous index range, runs on a 512 MB stack,
//! writes the index of the case it is about to run into a progress file, and prints its accumulator
//! as one JSON line at the end. A worker that dies (stack overflow, allocation failure, abort) or
//! stops making progress is attributed to the case in its progress file, which becomes a `fail`;
//! the rest of its range is re-run by fresh workers.

use reftex::tfmraw;
use serde_json::{json, Value};
use std::collections::BTreeMap;
use std::io::Read;
use std::os::unix::fs::FileExt;
use std::process::{Command, Stdio};
use std::time::{Duration, Instant};
use vcore::{catch, Acc, Ctx, Fail, Level};

// ------------------------------------------------------------------ known panic sites
// (finding id, file suffix, fragment of the source line). A panic explains a case only if its call
// site is listed here; the id must also be listed in known_findings.json (decided in Ctx::finish).
const KNOWN_SITES: &[(&str, &str, &str)] = &[];

fn known_site(p: &vcore::Panic) -> Option<&'static str> {
    let file = p.file.clone();
    let text = source_line_cached(p);
    KNOWN_SITES.iter().find(|(_, f, t)| file.ends_with(f) && !t.is_empty() && text.contains(t)).map(|x| x.0)
}

// ------------------------------------------------------------------ data

struct Data {
    /// corpus fonts sorted by (length, name)
    tfms: Vec<(String, Vec<u8>)>,
    /// corpus property lists sorted by (length, name)
    pls: Vec<(String, String)>,
    synth: Vec<(String, Vec<u8>)>,
    thorough: bool,
}

fn size_table(v: [u16; 12]) -> Vec<u8> {
    v.iter().flat_map(|x| x.to_be_bytes()).collect()
}

fn synthetic() -> Vec<(String, Vec<u8>)> {
    let mut out = vec![];
    // no characters: lf=12 lh=2 bc=1 ec=0 nw=nh=nd=ni=1
    let mut m = size_table([12, 2, 1, 0, 1, 1, 1, 1, 0, 0, 0, 0]);
    m.extend([0u8; 24]);
    m[28] = 0x00;
    m[29] = 0xa0; // design size 10.0
    out.push(("synthetic/min48".to_string(), m));
    // one character A with a lig/kern program of two words, one kern, one recipe, one parameter
    let mut m = size_table([19, 2, 65, 65, 2, 1, 1, 1, 2, 1, 1, 1]);
    m.extend([0, 0, 0, 0, 0x00, 0xa0, 0, 0]); // header
    m.extend([1, 0, 1, 0]); // char_info: width 1, tag 1, program at 0
    m.extend([0, 0, 0, 0, 0, 0x10, 0, 0]); // widths 0, 1.0
    m.extend([0u8; 12]); // height, depth, italic
    m.extend([0, 65, 128, 0, 128, 65, 0, 65]); // A A -> kern 0 ; A A -> LIG A
    m.extend([0, 1, 0, 0]); // kern
    m.extend([0, 0, 0, 65]); // exten
    m.extend([0, 4, 0, 0]); // param
    out.push(("synthetic/min76".to_string(), m));
    out.push(("synthetic/zeros16".to_string(), vec![0; 16]));
    out.push(("synthetic/zeros24".to_string(), vec![0; 24]));
    out.push(("synthetic/ff32".to_string(), vec![0xff; 32]));
    out
}

fn load(thorough: bool) -> Data {
    THOROUGH.store(thorough, std::sync::atomic::Ordering::Relaxed);
    let root = std::env::var("VERIF_REPO").unwrap_or("/repo".into());
    let (mut tfms, mut pls) = (vec![], vec![]);
    for dir in ["originals", "computer-modern", "ctan", "fuzz"] {
        let Ok(rd) = std::fs::read_dir(format!("{root}/crates/tfm/corpus/{dir}")) else { continue };
        for e in rd.flatten() {
            let p = e.path();
            let name = format!("{dir}/{}", p.file_name().unwrap().to_string_lossy());
            match p.extension().and_then(|x| x.to_str()) {
                Some("tfm") => {
                    if let Ok(b) = std::fs::read(&p) {
                        tfms.push((name, b));
                    }
                }
                Some("plst") | Some("pl") => {
                    if let Ok(s) = std::fs::read_to_string(&p) {
                        pls.push((name, s));
                    }
                }
                _ => {}
            }
        }
    }
    tfms.sort_by(|a, b| (a.1.len(), &a.0).cmp(&(b.1.len(), &b.0)));
    pls.sort_by(|a, b| (a.1.len(), &a.0).cmp(&(b.1.len(), &b.0)));
    Data { tfms, pls, synth: synthetic(), thorough }
}

// ------------------------------------------------------------------ accumulator with per-site witnesses

#[derive(Default)]
struct W {
    acc: Acc,
    /// panic site / abort class -> (cases, smallest index, case)
    sites: BTreeMap<String, (u64, u64, Value, String, String, bool)>,
}

fn leak(s: &str) -> &'static str {
    Box::leak(s.to_string().into_boxed_str())
}

fn w_to_json(w: &W) -> Value {
    let a = &w.acc;
    json!({
        "evals": a.evals, "nontrivial": a.nontrivial, "counters": a.counters, "classes": a.classes,
        "fail_count": a.fail_count, "cutoffs": a.cutoffs, "skipped": a.skipped,
        "fails": a.fails.iter().map(|f| json!({"idx": f.idx, "case": f.case, "expected": f.expected, "observed": f.observed, "note": f.note})).collect::<Vec<_>>(),
        "known": a.known.iter().map(|(k, v)| (k.clone(), json!([v.0, v.1, v.2]))).collect::<serde_json::Map<_, _>>(),
        "samples": a.samples.iter().map(|(i, v)| json!([i, v])).collect::<Vec<_>>(),
        "sites": w.sites.iter().map(|(k, v)| (k.clone(), json!([v.0, v.1, v.2, v.3, v.4, v.5]))).collect::<serde_json::Map<_, _>>(),
    })
}
fn w_from_json(v: &Value) -> W {
    let mut w = W::default();
    let a = &mut w.acc;
    a.evals = v["evals"].as_u64().unwrap_or(0);
    a.nontrivial = v["nontrivial"].as_u64().unwrap_or(0);
    a.fail_count = v["fail_count"].as_u64().unwrap_or(0);
    a.cutoffs = v["cutoffs"].as_u64().unwrap_or(0);
    a.skipped = v["skipped"].as_u64().unwrap_or(0);
    if let Some(m) = v["counters"].as_object() {
        for (k, x) in m {
            a.counters.insert(leak(k), x.as_u64().unwrap_or(0));
        }
    }
    if let Some(m) = v["classes"].as_object() {
        for (k, x) in m {
            a.classes.insert(k.clone(), x.as_u64().unwrap_or(0));
        }
    }
    if let Some(fs) = v["fails"].as_array() {
        for f in fs {
            a.fails.push(Fail { idx: f["idx"].as_u64().unwrap_or(0), case: f["case"].clone(), expected: f["expected"].as_str().unwrap_or("").into(), observed: f["observed"].as_str().unwrap_or("").into(), note: f["note"].as_str().unwrap_or("").into() });
        }
    }
    if let Some(m) = v["known"].as_object() {
        for (k, x) in m {
            a.known.insert(k.clone(), (x[0].as_u64().unwrap_or(0), x[1].as_u64().unwrap_or(0), x[2].clone()));
        }
    }
    if let Some(s) = v["samples"].as_array() {
        for x in s {
            a.samples.push((x[0].as_u64().unwrap_or(0), x[1].clone()));
        }
    }
    if let Some(m) = v["sites"].as_object() {
        for (k, x) in m {
            w.sites.insert(k.clone(), (x[0].as_u64().unwrap_or(0), x[1].as_u64().unwrap_or(0), x[2].clone(), x[3].as_str().unwrap_or("").to_string(), x[4].as_str().unwrap_or("").to_string(), x[5].as_bool().unwrap_or(true)));
        }
    }
    w
}
fn w_merge(into: &mut W, o: W) {
    into.acc.merge(o.acc);
    for (k, (n, i, c, ob, no, fl)) in o.sites {
        match into.sites.get_mut(&k) {
            Some(e) => {
                e.0 += n;
                if i < e.1 {
                    e.1 = i;
                    e.2 = c;
                    e.3 = ob;
                    e.4 = no;
                }
            }
            None => {
                into.sites.insert(k, (n, i, c, ob, no, fl));
            }
        }
    }
}
fn note_site(w: &mut W, site: &str, idx: u64, case: &dyn Fn() -> Value, observed: &str, note: &str, is_fail: bool) {
    match w.sites.get_mut(site) {
        Some(e) => {
            e.0 += 1;
            if idx < e.1 {
                e.1 = idx;
                e.2 = case();
                e.3 = observed.to_string();
                e.4 = note.to_string();
            }
        }
        None => {
            w.sites.insert(site.to_string(), (1, idx, case(), observed.to_string(), note.to_string(), is_fail));
        }
    }
}

// ------------------------------------------------------------------ the two judged operations

fn hex(b: &[u8]) -> String {
    b.iter().map(|x| format!("{x:02x}")).collect()
}
fn unhex(s: &str) -> Vec<u8> {
    (0..s.len() / 2).map(|i| u8::from_str_radix(&s[2 * i..2 * i + 2], 16).unwrap_or(0)).collect()
}

fn fmt_default(_: &tfm::pl::File) -> tfm::pl::CharDisplayFormat {
    tfm::pl::CharDisplayFormat::Default
}

/// `Panic::source_line` reads the source file; a sweep can hit the same site a million times.
fn source_line_cached(p: &vcore::Panic) -> String {
    thread_local! { static CACHE: std::cell::RefCell<BTreeMap<(String, u32), String>> = const { std::cell::RefCell::new(BTreeMap::new()) }; }
    CACHE.with(|c| c.borrow_mut().entry((p.file.clone(), p.line)).or_insert_with(|| p.source_line()).clone())
}

fn panic_fail(w: &mut W, idx: u64, case: &dyn Fn() -> Value, p: vcore::Panic, stage: &str) {
    let site = format!("{} [{}]", p.site(), source_line_cached(&p));
    w.acc.class(&format!("PANIC {stage}: {}", vcore::clip(&site, 160)));
    let observed = format!("panic at {}: {} [source line: {}]", p.site(), vcore::clip(&p.msg, 200), source_line_cached(&p));
    note_site(w, &format!("{stage}: {site} :: {}", vcore::clip(&p.msg, 80)), idx, case, &observed, &format!("{stage} panicked"), known_site(&p).is_none());
    match known_site(&p) {
        Some(id) => w.acc.known(id, idx, || {
            let mut v = case();
            v["panic"] = json!(p.describe());
            v
        }),
        None => {
            // only the smallest few failing cases are kept: do not build descriptions for the rest
            if w.acc.fails.len() < 6 || w.acc.fails.last().map(|f| idx < f.idx).unwrap_or(true) {
                w.acc.fail(idx, case(), "a result or a documented error, plus warnings", format!("panic at {}: {} [source line: {}]", p.site(), vcore::clip(&p.msg, 200), source_line_cached(&p)), format!("{stage} panicked"));
            } else {
                w.acc.fail_count += 1;
            }
        }
    }
}

thread_local! {
    /// Known finding D9b-tfm-too-big, predicate on the case: the generator of the current case
    /// computed that its tables need this many words in the .tfm (0 = not computed / fits).
    static NEEDS_WORDS: std::cell::Cell<usize> = const { std::cell::Cell::new(0) };
}
const MAX_TFM_WORDS: usize = 32767;

/// TFM bytes produced by the crate must be accepted by its own reader and by the independent one.
fn check_reread(w: &mut W, idx: u64, case: &dyn Fn() -> Value, bytes: &[u8], stage: &str) -> bool {
    match catch(|| tfm::File::deserialize(bytes).0.map(|_| ()).map_err(|e| format!("{e:?}"))) {
        Err(p) => {
            panic_fail(w, idx, case, p, &format!("{stage}: reading the TFM that pl_to_tfm returned"));
            return false;
        }
        Ok(Err(e)) => {
            // Known finding D9b-tfm-too-big: the case needs more than 32767 words (predicate on the
            // case) AND pl_to_tfm returned and the reader's reason is exactly the saturated length
            // (adjusted expectation). Any other reason, or a panic, stays a failure.
            let needs = NEEDS_WORDS.with(|c| c.get());
            if needs > MAX_TFM_WORDS && stage == "pl_to_tfm" && e.starts_with("InconsistentSubFileSizes") && bytes.len() >= 2 && bytes[0] == 0x7f && bytes[1] == 0xff {
                w.acc.class("known: tables need more than 32767 words, length field saturates (D9b-tfm-too-big)");
                w.acc.known("D9b-tfm-too-big", idx, || {
                    let mut v = case();
                    v["needs_words"] = json!(needs);
                    v["observed"] = json!(vcore::clip(&e, 200));
                    v
                });
                return false;
            }
            w.acc.class(&format!("REJECTED {stage}: {}", e.split('(').next().unwrap_or("")));
            note_site(w, &format!("{stage}: pl_to_tfm output rejected by File::deserialize: {}", e.split('(').next().unwrap_or("")), idx, case, &format!("{e} (TFM: {})", vcore::clip(&hex(bytes), 400)), &format!("{stage}: output of pl_to_tfm is not a readable TFM"), true);
            w.acc.fail(idx, case(), "pl_to_tfm output is accepted by the TFM reader", format!("{e} (TFM: {})", vcore::clip(&hex(bytes), 400)), format!("{stage}: output of pl_to_tfm is not a readable TFM"));
            return false;
        }
        Ok(Ok(())) => {}
    }
    if tfmraw::parse(bytes).is_err() {
        // "accepted by the TFM reader" is the crate's reader; the independent reader is a recorded cross-check only
        w.acc.class(&format!("info: crate reader accepts, tfmraw rejects ({stage})"));
        w.acc.count("info_tfmraw_rejects_output_the_crate_reader_accepts");
    }
    true
}

/// One byte string as a .tfm file.
fn check_bytes(w: &mut W, idx: u64, bytes: &[u8], case: &dyn Fn() -> Value) {
    w.acc.eval();
    if tfmraw::parse(bytes).is_ok() {
        w.acc.count("faulted_tfm_passes_size_checks");
    }
    let r = catch(|| tfm::algorithms::tfm_to_pl(bytes, 3, &fmt_default));
    let out = match r {
        Err(p) => return panic_fail(w, idx, case, p, "tfm_to_pl"),
        Ok(Err(_)) => {
            // std::fmt::Error is the documented error type of tfm_to_pl's signature: a return, not a panic
            w.acc.class("tfm: returned std::fmt::Error");
            return;
        }
        Ok(Ok(o)) => o,
    };
    // every message must be printable the way the tftopl binary prints it (tfm-bin/src/tftopl.rs)
    if let Err(p) = catch(|| out.error_messages.iter().take(200).map(|m| m.tftopl_message().len()).sum::<usize>()) {
        return panic_fail(w, idx, case, p, "rendering a tfm_to_pl message (tftopl_message)");
    }
    match out.pl_data {
        Err(e) => {
            if let Err(p) = catch(|| e.tftopl_message().len()) {
                return panic_fail(w, idx, case, p, "rendering a tfm_to_pl error (tftopl_message)");
            }
            let s = format!("{e:?}");
            w.acc.class(&format!("tfm: error {}", s.split('(').next().unwrap_or("")));
        }
        Ok(pl) => {
            w.acc.nontrivial();
            w.acc.class(if out.error_messages.is_empty() { "tfm: converted" } else { "tfm: converted with messages" });
            if !out.error_messages.is_empty() {
                w.acc.sample(idx, || {
                    let mut v = case();
                    v["outcome"] = json!(format!("property list of {} bytes, {} message(s), first: {}", pl.len(), out.error_messages.len(), vcore::clip(&out.error_messages[0].tftopl_message(), 120)));
                    v
                });
            }
            // the other character display formats and indents of tfm_to_pl (the tftopl binary's options)
            for (k, indent) in [(1u8, 0usize), (2, 9)] {
                let r = catch(|| tfm::algorithms::tfm_to_pl(bytes, indent, &move |_| if k == 1 { tfm::pl::CharDisplayFormat::Ascii } else { tfm::pl::CharDisplayFormat::Octal }).map(|o| o.pl_data.map(|p| p.len()).unwrap_or(0)));
                if let Err(p) = r {
                    return panic_fail(w, idx, case, p, if k == 1 { "tfm_to_pl (Ascii format, indent 0)" } else { "tfm_to_pl (Octal format, indent 9)" });
                }
            }
            w.acc.count("other_display_formats_converted");
            // the property list TFtoPL wrote is itself a text for PLtoTF
            match catch(|| tfm::algorithms::pl_to_tfm(&pl)) {
                Err(p) => panic_fail(w, idx, case, p, "pl_to_tfm(tfm_to_pl(bytes))"),
                Ok((b, _)) => {
                    check_reread(w, idx, case, &b, "after tfm_to_pl");
                }
            }
        }
    }
}

/// One text as a .pl file.
fn check_text(w: &mut W, idx: u64, text: &str, case: &dyn Fn() -> Value) {
    w.acc.eval();
    {
        let (mut depth, mut ok) = (0i64, true);
        for c in text.bytes() {
            match c {
                b'(' => depth += 1,
                b')' => {
                    depth -= 1;
                    ok &= depth >= 0;
                }
                _ => {}
            }
        }
        w.acc.count(if ok && depth == 0 { "faulted_pl_with_balanced_parentheses" } else { "faulted_pl_with_unbalanced_parentheses" });
    }
    let (bytes, warnings) = match catch(|| tfm::algorithms::pl_to_tfm(text)) {
        Err(p) => return panic_fail(w, idx, case, p, "pl_to_tfm"),
        Ok(x) => x,
    };
    // "plus warnings": every warning must be printable the way the pltotf binary prints it
    // (tfm-bin/src/pltotf.rs: `warning.pltotf_message(&pl_data)`)
    if let Err(p) = catch(|| warnings.iter().take(200).map(|x| x.pltotf_message(text).len()).sum::<usize>()) {
        return panic_fail(w, idx, case, p, "rendering a pl_to_tfm warning (ParseWarning::pltotf_message)");
    }
    if !warnings.is_empty() {
        w.acc.nontrivial();
    }
    w.acc.class(&format!("pl: converted, {} warning(s)", match warnings.len() { 0 => "0", 1 => "1", 2..=5 => "2-5", _ => ">5" }));
    if !check_reread(w, idx, case, &bytes, "pl_to_tfm") {
        return;
    }
    // and the reader side on what was written
    match catch(|| tfm::algorithms::tfm_to_pl(&bytes, 3, &fmt_default).map(|o| o.pl_data.is_ok())) {
        Err(p) => panic_fail(w, idx, case, p, "tfm_to_pl(pl_to_tfm(text))"),
        Ok(_) => {}
    }
}

// ------------------------------------------------------------------ families: index -> case

const REPL: &[&str] = &[
    "0", "255", "256", "2047", "2048", "-1", "77777777777", "0.5", "16.0", "-16.0", "2047.9999999", "-2047.9999999", "C", "O", "D", "H", "R", "F", "A", "MRR", "TRUE", "LABEL", "STOP", "SKIP", "BOUNDARYCHAR", "(", ")", "é", "1é", "Aé0", "R é", "C é", "\u{2028}", "😀", "C 😀", "0.1234567", "0.12345678", "12345678901234567", "123456789012345678", "37777777777", "40000000000", "FFFFFFFF", "100000000", "-0", "+1", "--1", "+-1",
];
const PROPS: &[&str] = &[
    "CHECKSUM", "DESIGNSIZE", "DESIGNUNITS", "CODINGSCHEME", "FAMILY", "FACE", "SEVENBITSAFEFLAG", "HEADER", "FONTDIMEN", "LIGTABLE", "BOUNDARYCHAR", "CHARACTER", "COMMENT", "SLANT", "SPACE", "STRETCH", "SHRINK", "XHEIGHT", "QUAD", "EXTRASPACE", "NUM1", "NUM3", "DENOM2", "SUP3", "SUB2", "SUPDROP", "DELIM2", "AXISHEIGHT", "DEFAULTRULETHICKNESS", "BIGOPSPACING5", "PARAMETER", "LABEL", "STOP", "SKIP", "KRN", "LIG", "/LIG", "/LIG>", "LIG/", "LIG/>", "/LIG/", "/LIG/>", "/LIG/>>", "CHARWD", "CHARHT", "CHARDP", "CHARIC", "NEXTLARGER", "VARCHAR", "TOP", "MID", "BOT", "REP",
];
const N_FIXED: u64 = 8; // delete, duplicate, truncate before, insert "(", insert ")", non-ASCII character appended / prepended
const N_FILE: u64 = 4; // character codes one below the first / one above the last CHARACTER (octal, decimal)
fn menu_len() -> u64 {
    N_FIXED + REPL.len() as u64 + N_FILE + PROPS.len() as u64
}

fn tokens(t: &str) -> Vec<(usize, usize)> {
    let mut toks = vec![];
    let b = t.as_bytes();
    let mut i = 0;
    while i < b.len() {
        let c = b[i];
        if c == b'(' || c == b')' {
            toks.push((i, i + 1));
            i += 1;
        } else if c.is_ascii_whitespace() {
            i += 1;
        } else {
            let s = i;
            while i < b.len() && !b[i].is_ascii_whitespace() && b[i] != b'(' && b[i] != b')' {
                i += 1;
            }
            if t.is_char_boundary(s) && t.is_char_boundary(i) {
                toks.push((s, i));
            }
        }
    }
    toks
}

/// First and last character code that has a CHARACTER property (via the crate's own parser; only
/// used to pick replacement values, never to judge).
fn char_range(text: &str) -> (i32, i32) {
    // own scan of `(CHARACTER <C x | O n | D n | H n>`: the subject is never called outside a worker
    let toks: Vec<&str> = text.split(|c: char| c.is_whitespace() || c == '(' || c == ')').filter(|t| !t.is_empty()).collect();
    let (mut lo, mut hi) = (i32::MAX, i32::MIN);
    for w in toks.windows(3) {
        if w[0] != "CHARACTER" {
            continue;
        }
        let code = match w[1] {
            "C" => w[2].bytes().next().map(|b| b as i32),
            "O" => i32::from_str_radix(w[2], 8).ok(),
            "D" => w[2].parse().ok(),
            "H" => i32::from_str_radix(w[2], 16).ok(),
            _ => None,
        };
        if let Some(c) = code.filter(|c| (0..256).contains(c)) {
            lo = lo.min(c);
            hi = hi.max(c);
        }
    }
    if lo > hi {
        (0, 0)
    } else {
        (lo, hi)
    }
}

struct TextFamily {
    /// (file index, tokens, char range)
    files: Vec<(usize, Vec<(usize, usize)>, (i32, i32))>,
    /// prefix sums of tokens*menu
    starts: Vec<u64>,
}
impl TextFamily {
    fn new(d: &Data) -> TextFamily {
        let (max_bytes, max_tokens) = if d.thorough { (25_000usize, 1500usize) } else { (1500usize, 400usize) };
        let mut files = vec![];
        let mut starts = vec![0u64];
        for (i, (_, t)) in d.pls.iter().enumerate() {
            if t.len() > max_bytes {
                continue;
            }
            let mut toks = tokens(t);
            toks.truncate(max_tokens);
            let n = toks.len() as u64 * menu_len();
            files.push((i, toks, char_range(t)));
            starts.push(starts.last().unwrap() + n);
        }
        TextFamily { files, starts }
    }
    fn len(&self) -> u64 {
        *self.starts.last().unwrap()
    }
    /// None = the menu item does not apply to this token (not a case).
    fn case(&self, d: &Data, idx: u64) -> Option<(String, String)> {
        let fi = self.starts.partition_point(|s| *s <= idx) - 1;
        let (pi, toks, (lo, hi)) = &self.files[fi];
        let r = idx - self.starts[fi];
        let (k, item) = ((r / menu_len()) as usize, r % menu_len());
        let (name, t) = &d.pls[*pi];
        let (s, e) = toks[k];
        let tok = &t[s..e];
        let rep = |x: &str| format!("{}{}{}", &t[..s], x, &t[e..]);
        let (what, text) = if item < N_FIXED {
            match item {
                0 => ("deleted".to_string(), rep("")),
                1 => ("duplicated".to_string(), format!("{}{} {}", &t[..e], if tok == "(" || tok == ")" { "" } else { " " }, &t[s..])),
                2 => ("file truncated before it".to_string(), t[..s].to_string()),
                3 => ("`(` inserted before it".to_string(), format!("{}( {}", &t[..s], &t[s..])),
                4 => ("`)` inserted before it".to_string(), format!("{}) {}", &t[..s], &t[s..])),
                5 => ("non-ASCII `é` appended to it".to_string(), format!("{}é{}", &t[..e], &t[e..])),
                7 => {
                    // the whole balanced property list that starts at this `(` once more (a second LIGTABLE,
                    // the same CHARACTER twice, two BOUNDARYCHARs …)
                    if tok != "(" {
                        return None;
                    }
                    let (mut depth, mut end) = (0i32, None);
                    for (p, c) in t[s..].char_indices() {
                        match c {
                            '(' => depth += 1,
                            ')' => {
                                depth -= 1;
                                if depth == 0 {
                                    end = Some(s + p + 1);
                                    break;
                                }
                            }
                            _ => {}
                        }
                    }
                    let end = end?;
                    ("property list repeated".to_string(), format!("{}{}{}", &t[..end], &t[s..end], &t[end..]))
                }
                _ => ("non-ASCII `ü` put in front of it".to_string(), format!("{}ü{}", &t[..s], &t[s..])),
            }
        } else if item < N_FIXED + REPL.len() as u64 {
            let x = REPL[(item - N_FIXED) as usize];
            if x == tok {
                return None;
            }
            (format!("replaced by `{x}`"), rep(x))
        } else if item < N_FIXED + REPL.len() as u64 + N_FILE {
            if !tok.as_bytes()[0].is_ascii_digit() {
                return None;
            }
            let x = match item - N_FIXED - REPL.len() as u64 {
                0 => format!("{:o}", (lo - 1).max(0)),
                1 => format!("{:o}", hi + 1),
                2 => format!("{}", (lo - 1).max(0)),
                _ => format!("{}", hi + 1),
            };
            if x == tok {
                return None;
            }
            (format!("replaced by `{x}` (characters declared: {lo}..{hi})"), rep(&x))
        } else {
            // property name swap: only for a token directly after an opening parenthesis
            if k == 0 || &t[toks[k - 1].0..toks[k - 1].1] != "(" {
                return None;
            }
            let x = PROPS[(item - N_FIXED - REPL.len() as u64 - N_FILE) as usize];
            if x == tok {
                return None;
            }
            (format!("property name replaced by `{x}`"), rep(x))
        };
        Some((format!("{name}: token {k} `{}` {what}", vcore::clip(tok, 30)), text))
    }
}

/// Lattices for the template family.
const FIX: &[&str] = &["1é", "0", "1", "-1", "0.000001", "15.999999", "16", "-16", "-16.000001", "1023.5", "2047.999999", "2048", "-2047.999999", "-2048", "99999999999", "1.0E5", "", "0.1234567", "0.12345678", "0.123456789012345678", "-0", "+1.5", "--1.5", "15.9999999", "2047.9999995"];
const CODES: &[&str] = &["C é", "C A", "C B", "O 0", "O 377", "O 400", "D 65", "D 256", "H 41", "H FF", "H 100", "F MRR", "C", "D -1"];
const INTS: &[&str] = &["0", "1", "17", "18", "19", "254", "255", "256", "257", "32767", "32768", "65535", "65536", "2147483647", "2147483648", "4294967295", "4294967296", "-1", "37777777777", "40000000000", "12345678901234567", "123456789012345678", "+1", "--1", "-+-1", "FFFFFFFF", "100000000"];

/// (template, hole kinds) – `#` is a hole; kinds: f = FIX, c = CODES, i = INTS
const TEMPLATES: &[(&str, &str)] = &[
    ("(DESIGNSIZE R #)(CHARACTER C A (CHARWD R #))", "ff"),
    ("(DESIGNSIZE D #)", "i"),
    ("(DESIGNUNITS R #)(DESIGNSIZE R #)(CHARACTER C A (CHARWD R #))", "fff"),
    ("(CHECKSUM O #)", "i"),
    ("(CHECKSUM H #)", "i"),
    ("(HEADER D # O #)", "ii"),
    ("(FONTDIMEN (SLANT R #) (PARAMETER D # R #))", "fif"),
    ("(FONTDIMEN (PARAMETER # R 1.0))", "c"),
    ("(CHARACTER # (CHARWD R #) (CHARHT R #))", "cff"),
    ("(CHARACTER C A (CHARWD R #) (CHARDP R #) (CHARIC R #))", "fff"),
    ("(CHARACTER C A (CHARWD R #))(CHARACTER C B (CHARWD R #))(CHARACTER C C (CHARWD R #))", "fff"),
    ("(CHARACTER C M (CHARHT R #))(CHARACTER C N (CHARHT R #))(CHARACTER C O (CHARHT R #))", "fff"),
    ("(CHARACTER # (CHARWD R 1.0))(LIGTABLE (LABEL #) (KRN # R #) (STOP))", "cccf"),
    ("(CHARACTER # (CHARWD R 1.0))(LIGTABLE (LABEL #) (LIG # #) (STOP))", "cccc"),
    ("(CHARACTER C M (CHARWD R 1.0))(LIGTABLE (LABEL #) (SKIP D #) (KRN # R 1.0))", "cic"),
    ("(BOUNDARYCHAR #)(CHARACTER C M (CHARWD R 1.0))(LIGTABLE (LABEL BOUNDARYCHAR) (KRN # R #) (STOP))", "ccf"),
    ("(CHARACTER # (CHARWD R 1.0) (NEXTLARGER #))(CHARACTER # (NEXTLARGER #))", "cccc"),
    ("(CHARACTER # (CHARWD R 1.0) (VARCHAR (TOP #) (REP #)))", "ccc"),
    ("(CHARACTER C M (CHARWD R 1.0))(LIGTABLE (LABEL #)(LABEL #) (KRN # R #))", "cccf"),
    ("(FACE O #)(FACE F #)(SEVENBITSAFEFLAG #)", "icc"),
    ("(FACE D #)(FACE H #)", "ii"),
    ("(SEVENBITSAFEFLAG TRUE)(CHARACTER C A (CHARWD R 1.0) (NEXTLARGER #))(CHARACTER O 200 (CHARWD R 1.0))(CHARACTER # (CHARWD R #))", "ccf"),
    ("(CODINGSCHEME #)(FAMILY #)(COMMENT #)", "ccc"),
    // more than 15 distinct heights / depths, more than 63 italics: the lossy table compression runs
    ("(CHARACTER C a (CHARHT R 0.1))(CHARACTER C b (CHARHT R 0.2))(CHARACTER C c (CHARHT R 0.3))(CHARACTER C d (CHARHT R 0.4))(CHARACTER C e (CHARHT R 0.5))(CHARACTER C f (CHARHT R 0.6))(CHARACTER C g (CHARHT R 0.7))(CHARACTER C h (CHARHT R 0.8))(CHARACTER C i (CHARHT R 0.9))(CHARACTER C j (CHARHT R 1.1))(CHARACTER C k (CHARHT R 1.2))(CHARACTER C l (CHARHT R 1.3))(CHARACTER C m (CHARHT R 1.4))(CHARACTER C n (CHARHT R 1.5))(CHARACTER C o (CHARHT R 1.6))(CHARACTER C p (CHARHT R #))(CHARACTER C q (CHARHT R #))(CHARACTER C r (CHARHT R #))", "fff"),
    ("(CHARACTER C a (CHARDP R 0.1))(CHARACTER C b (CHARDP R 0.2))(CHARACTER C c (CHARDP R 0.3))(CHARACTER C d (CHARDP R 0.4))(CHARACTER C e (CHARDP R 0.5))(CHARACTER C f (CHARDP R 0.6))(CHARACTER C g (CHARDP R 0.7))(CHARACTER C h (CHARDP R 0.8))(CHARACTER C i (CHARDP R 0.9))(CHARACTER C j (CHARDP R 1.1))(CHARACTER C k (CHARDP R 1.2))(CHARACTER C l (CHARDP R 1.3))(CHARACTER C m (CHARDP R 1.4))(CHARACTER C n (CHARDP R -1.5))(CHARACTER C o (CHARDP R -1.6))(CHARACTER C p (CHARDP R #))(CHARACTER C q (CHARDP R #))", "ff"),
];

fn lattice(kind: u8) -> &'static [&'static str] {
    match kind {
        b'f' => FIX,
        b'c' => CODES,
        _ => INTS,
    }
}
fn template_sizes() -> Vec<u64> {
    let mut v = vec![0u64];
    for (_, kinds) in TEMPLATES {
        let n: u64 = kinds.bytes().map(|k| lattice(k).len() as u64).product();
        v.push(v.last().unwrap() + n);
    }
    v
}
fn template_case(idx: u64) -> String {
    let starts = template_sizes();
    let ti = starts.partition_point(|s| *s <= idx) - 1;
    let (tpl, kinds) = TEMPLATES[ti];
    let radices: Vec<u64> = kinds.bytes().map(|k| lattice(k).len() as u64).collect();
    let d = vcore::digits(idx - starts[ti], &radices);
    let mut out = String::new();
    let mut h = 0;
    for ch in tpl.chars() {
        if ch == '#' {
            out.push_str(lattice(kinds.as_bytes()[h])[d[h] as usize]);
            h += 1;
        } else {
            out.push(ch);
        }
    }
    out
}

/// Property lists in which up to 256 characters (and the boundary) each label their own chain behind
/// `pad` unlabelled instructions, so that up to 257 entry points need a restart word.
fn many_entrypoints_cases() -> Vec<(String, String)> {
    let mut out = vec![];
    for nchars in [254usize, 255, 256] {
        for pad in [0usize, 1, 2, 3, 254, 255, 256, 300] {
            for boundary in [false, true] {
                let mut s = String::from("(DESIGNSIZE R 10.0)\n");
                if boundary {
                    s.push_str("(BOUNDARYCHAR O 0)\n");
                }
                s.push_str("(LIGTABLE\n");
                for _ in 0..pad {
                    s.push_str(" (KRN O 1 R 0.1)\n");
                }
                if boundary {
                    s.push_str(" (LABEL BOUNDARYCHAR)\n (KRN O 2 R 0.3)\n (STOP)\n");
                }
                for c in 0..nchars {
                    s.push_str(&format!(" (LABEL O {:o})\n (KRN O {:o} R 0.2)\n (STOP)\n", c, (c + 1) % 256));
                }
                s.push_str(" )\n");
                for c in 0..nchars {
                    s.push_str(&format!("(CHARACTER O {c:o} (CHARWD R 1.0))\n"));
                }
                out.push((format!("{nchars} characters each labelling its own chain behind {pad} unlabelled instructions, boundary label: {boundary}"), s));
            }
        }
    }
    out
}


// ------------------------------------------------------------------ size-limit families

/// A size-consistent TFM with the given table lengths (None if lf would not fit in 15 bits).
/// `maxidx`: characters point at the last entry of every table instead of the first useful one.
#[derive(Clone, Copy, Debug)]
struct Spec {
    lh: usize,
    bc: usize,
    ec: usize,
    nw: usize,
    nh: usize,
    nd: usize,
    ni: usize,
    nl: usize,
    nk: usize,
    ne: usize,
    np: usize,
}
const BASE_SPEC: Spec = Spec { lh: 18, bc: 65, ec: 70, nw: 3, nh: 2, nd: 2, ni: 2, nl: 4, nk: 2, ne: 2, np: 7 };

fn limit_tfm(s: &Spec, maxidx: bool) -> Option<Vec<u8>> {
    let nc = if s.bc <= s.ec { s.ec + 1 - s.bc } else { 0 };
    let lf = 6 + s.lh + nc + s.nw + s.nh + s.nd + s.ni + s.nl + s.nk + s.ne + s.np;
    if lf > 32767 {
        return None;
    }
    let mut out: Vec<u8> = vec![];
    for v in [lf, s.lh, s.bc, s.ec, s.nw, s.nh, s.nd, s.ni, s.nl, s.nk, s.ne, s.np] {
        out.extend((v as u16).to_be_bytes());
    }
    // header: checksum, design size 10, TEST, ABC, face 0, then arbitrary extra words
    let mut hb = vec![0u8; 72];
    hb[0..4].copy_from_slice(&[0x12, 0x34, 0x56, 0x78]);
    hb[4..8].copy_from_slice(&(10i32 << 20).to_be_bytes());
    hb[8] = 4;
    hb[9..13].copy_from_slice(b"TEST");
    hb[48] = 3;
    hb[49..52].copy_from_slice(b"ABC");
    for i in 18..s.lh {
        hb.extend(((i as u32).wrapping_mul(2654435761)).to_be_bytes());
    }
    hb.truncate(4 * s.lh);
    out.extend(&hb);
    for c in s.bc..s.bc + nc {
        let pick = |n: usize, cap: usize| -> u8 { (if maxidx { n.saturating_sub(1) } else { 1.min(n.saturating_sub(1)) }).min(cap) as u8 };
        let (mut tag, mut rem) = (0u8, 0u8);
        match c % 4 {
            1 if s.nl > 0 => {
                tag = 1;
                rem = pick(s.nl, 255);
            }
            2 if c < s.ec => {
                tag = 2;
                rem = (c + 1) as u8;
            }
            3 if s.ne > 0 => {
                tag = 3;
                rem = pick(s.ne, 255);
            }
            _ => {}
        }
        out.extend([pick(s.nw, 255), (pick(s.nh, 15) << 4) | pick(s.nd, 15), (pick(s.ni, 63) << 2) | tag, rem]);
    }
    for n in [s.nw, s.nh, s.nd, s.ni] {
        for i in 0..n {
            out.extend(((i as i32) << 8).to_be_bytes());
        }
    }
    for i in 0..s.nl {
        let stop = i % 50 == 49 || i + 1 == s.nl;
        let next = (s.bc.min(255) + i % nc.max(1)) as u8;
        if s.nk > 0 && i % 3 != 2 {
            let k = if maxidx { s.nk - 1 } else { i % s.nk };
            out.extend([if stop { 128 } else { 0 }, next, 128 + (k >> 8) as u8, k as u8]);
        } else {
            out.extend([if stop { 128 } else { 0 }, next, (i % 12) as u8, s.bc.min(255) as u8]);
        }
    }
    for i in 0..s.nk {
        out.extend(((i as i32 % 4096) << 6).to_be_bytes());
    }
    for i in 0..s.ne {
        out.extend([0, if i % 2 == 0 { 0 } else { s.bc.min(255) as u8 }, 0, s.bc.min(255) as u8]);
    }
    for i in 0..s.np {
        out.extend(((i as i32 % 4096) << 10).to_be_bytes());
    }
    Some(out)
}

fn limit_tfm_cases() -> Vec<(String, Vec<u8>)> {
    let mut specs: Vec<(String, Spec)> = vec![("base".into(), BASE_SPEC)];
    macro_rules! vary {
        ($f:ident, $vals:expr) => {
            for v in $vals {
                let mut s = BASE_SPEC;
                s.$f = v;
                specs.push((format!("{} = {}", stringify!($f), v), s));
            }
        };
    }
    vary!(lh, [2usize, 3, 11, 12, 16, 17, 19, 20, 271, 272, 273, 274, 275, 300, 1000, 32000]);
    vary!(nw, [1usize, 2, 255, 256, 257, 1000, 32000]);
    vary!(nh, [1usize, 15, 16, 17, 256, 32000]);
    vary!(nd, [1usize, 15, 16, 17, 256, 32000]);
    vary!(ni, [1usize, 63, 64, 65, 256, 32000]);
    vary!(nl, [0usize, 1, 255, 256, 257, 32509, 32510, 32511, 32700]);
    vary!(nk, [0usize, 1, 255, 256, 257, 32000, 32700]);
    vary!(ne, [0usize, 1, 254, 255, 256, 257]);
    vary!(np, [0usize, 1, 6, 8, 13, 22, 253, 254, 255, 256, 257, 1000, 32000]);
    for (bc, ec) in [(0usize, 255usize), (0, 0), (255, 255), (1, 0), (0, 127), (128, 255), (256, 255)] {
        let mut s = BASE_SPEC;
        s.bc = bc;
        s.ec = ec;
        specs.push((format!("bc..ec = {bc}..{ec}"), s));
        // every table at the largest size its index field can address, all 256 characters
        if bc == 0 && ec == 255 {
            let big = Spec { lh: 18, bc, ec, nw: 256, nh: 16, nd: 16, ni: 64, nl: 256, nk: 256, ne: 256, np: 254 };
            specs.push(("every table at the maximum its index can address, 256 characters".into(), big));
            let mut b2 = big;
            b2.lh = 274;
            specs.push(("the same with lh = 274".into(), b2));
        }
    }
    let mut out = vec![];
    for (name, sp) in specs {
        for maxidx in [false, true] {
            if let Some(b) = limit_tfm(&sp, maxidx) {
                out.push((format!("size-consistent synthetic font, {name}{}", if maxidx { ", characters pointing at the last entry of every table" } else { "" }), b));
            }
        }
    }
    out
}

/// Synthetic fonts with a full header whose every byte is swept (independent of the corpus).
fn header_sweep_bases() -> Vec<(String, Vec<u8>)> {
    let mut a = BASE_SPEC;
    a.lh = 18;
    let mut b = BASE_SPEC;
    b.lh = 20;
    vec![("synthetic lh=18".into(), limit_tfm(&a, false).unwrap()), ("synthetic lh=20".into(), limit_tfm(&b, true).unwrap())]
}

/// (description, text, words the tables need in the .tfm if the generator computed it, else 0)
fn limit_pl_cases() -> Vec<(String, String, usize)> {
    use std::fmt::Write as _;
    let mut out: Vec<(String, String, usize)> = vec![];
    // LIGTABLE lengths around PLtoTF's limit (32767 - 257 = 32510 instructions)
    for n in [32509usize, 32510, 32511, 40000, 70000] {
        for label_at_end in [false, true] {
            let mut s = String::with_capacity(n * 20);
            s.push_str("(CHARACTER C A (CHARWD R 1.0))(CHARACTER C B (CHARWD R 1.0))\n(LIGTABLE (LABEL C A)\n");
            for i in 0..n {
                if i % 3 == 0 {
                    let _ = writeln!(s, "(KRN O {:o} R 0.{})", i % 256, i % 9);
                } else {
                    let _ = writeln!(s, "(LIG O {:o} C B)", i % 256);
                }
            }
            if label_at_end {
                s.push_str("(LABEL C B)(KRN C A R 0.5)(STOP)");
            }
            s.push_str(")\n");
            out.push((format!("LIGTABLE of {n} instructions{}", if label_at_end { " and one more labelled chain after them" } else { "" }), s, 0));
        }
    }
    // numbers of VARCHAR characters, parameters, header words, distinct dimensions, distinct kerns
    for n in [254usize, 255, 256] {
        let mut s = String::new();
        for c in 0..n {
            let _ = writeln!(s, "(CHARACTER O {:o} (CHARWD R 1.0) (VARCHAR (TOP O {:o}) (REP O {:o})))", c, (c + 1) % n, c);
        }
        out.push((format!("{n} characters with a VARCHAR each"), s, 0));
        let mut s = String::new();
        for c in 0..n {
            let _ = writeln!(s, "(CHARACTER O {:o} (CHARWD R 1.{:03}) (CHARHT R 0.{:03}) (CHARDP R 0.{:03}) (CHARIC R 0.{:03}) (NEXTLARGER O {:o}))", c, c, c + 1, 300 + c, 600 + c, (c + 1) % 256);
        }
        out.push((format!("{n} characters with {n} distinct widths, heights, depths and italic corrections in one NEXTLARGER chain"), s, 0));
    }
    for n in [253usize, 254, 255, 256, 1000] {
        let mut s = String::from("(FONTDIMEN\n");
        for i in 1..=n {
            let _ = writeln!(s, "(PARAMETER D {i} R 0.{:03})", i % 1000);
        }
        s.push_str(")\n(CHARACTER C A (CHARWD R 1.0))");
        out.push((format!("{n} font parameters"), s, 0));
    }
    for codingscheme in ["TEX MATH SYMBOLS", "TEX MATH EXTENSION"] {
        for n in [21usize, 22, 23, 12, 13, 14] {
            let mut s = format!("(CODINGSCHEME {codingscheme})\n(FONTDIMEN\n");
            for i in 1..=n {
                let _ = writeln!(s, "(PARAMETER D {i} R 0.5)");
            }
            s.push_str(")\n");
            out.push((format!("{codingscheme} with {n} parameters"), s, 0));
        }
    }
    for last in [254usize, 255, 256, 300] {
        let mut s = String::new();
        for i in 18..=last {
            let _ = writeln!(s, "(HEADER D {i} O {:o})", (i as u32).wrapping_mul(2654435761));
        }
        s.push_str("(CHARACTER C A (CHARWD R 1.0))");
        out.push((format!("HEADER D 18 .. HEADER D {last}"), s, 0));
    }
    for n in [255usize, 256, 257, 5000, 32510] {
        let mut s = String::from("(CHARACTER C A (CHARWD R 1.0))\n(LIGTABLE (LABEL C A)\n");
        for i in 0..n {
            let _ = writeln!(s, "(KRN O {:o} R {}.{:04})", i % 256, i / 10000, i % 10000);
        }
        s.push_str("(STOP))\n");
        // lf = 6 + lh 18 + 1 character + nw 2 + nh 1 + nd 1 + ni 1 + nl n + nk n (PLtoTF §130; every amount is
        // a different fix_word: the texts differ by at least 0.0001 > 2^-20)
        out.push((format!("{n} kern instructions with {n} distinct amounts"), s, 6 + 18 + 1 + 2 + 1 + 1 + 1 + n + n));
    }
    for (c, name) in [("CODINGSCHEME", 39usize), ("CODINGSCHEME", 40), ("CODINGSCHEME", 41), ("CODINGSCHEME", 300), ("FAMILY", 19), ("FAMILY", 20), ("FAMILY", 21), ("FAMILY", 300)] {
        out.push((format!("{c} of {name} characters"), format!("({c} {})", "X".repeat(name)), 0));
    }
    // every face code, in octal
    for v in 0..=256u32 {
        out.push((format!("FACE O {v:o}"), format!("(FACE O {v:o})(CHARACTER C A (CHARWD R 1.0))"), 0));
    }
    out
}

/// Files at the maximum length a TFM can declare (lf = 0x7FFF = 32767 words = 131068 bytes) whose size
/// words sum to 32767 + delta with one table taking the bulk. Case idx -> (description, bytes, true sum).
const MAXLEN_BULK: [&str; 5] = ["lh", "nw", "nl", "nk", "np"];
const MAXLEN_DELTA: [i64; 6] = [-1, 0, 1, 2, 12, 32767];
const MAXLEN_BYTES: [usize; 3] = [131064, 131068, 131072];
const N_MAXLEN: u64 = 5 * 6 * 3 * 2;
fn max_len_case(idx: u64) -> (String, Vec<u8>, i64) {
    let d = vcore::digits(idx, &[5, 6, 3, 2]);
    let (bulk, delta, len, ff) = (d[0] as usize, MAXLEN_DELTA[d[1] as usize], MAXLEN_BYTES[d[2] as usize], d[3] == 1);
    // lf lh bc ec nw nh nd ni nl nk ne np
    let mut v: [i64; 12] = [0x7fff, 2, 1, 0, 1, 1, 1, 1, 0, 0, 0, 0];
    let pos = [1usize, 4, 8, 9, 11][bulk];
    let rest: i64 = 6 + 2 + 4 - v[pos];
    let mut second = None;
    if delta == 32767 {
        // far too much: two tables at 32767 words each
        v[pos] = 32767;
        let other = if pos == 8 { 9 } else { 8 };
        v[other] = 32767;
        second = Some(other);
    } else {
        v[pos] = (32767 + delta - rest).min(32767);
    }
    let sum: i64 = 6 + v[1] + (v[3] - v[2] + 1) + v[4..].iter().sum::<i64>();
    let mut b: Vec<u8> = vec![if ff { 0xff } else { 0 }; len];
    for (i, x) in v.iter().enumerate() {
        b[2 * i..2 * i + 2].copy_from_slice(&(*x as u16).to_be_bytes());
    }
    (format!("{len} bytes, lf = 32767, {} = {}{}, size words sum to {sum}, payload {}", MAXLEN_BULK[bulk], v[pos], second.map(|o| format!(" and word {o} = 32767")).unwrap_or_default(), if ff { "0xFF" } else { "0x00" }), b, sum)
}

const VOCAB: &[&str] = &[
    "(", ")", "CHARACTER", "C", "A", "LIGTABLE", "LABEL", "LIG", "KRN", "STOP", "SKIP", "D", "R", "1", "256", "-1", "BOUNDARYCHAR", "NEXTLARGER", "VARCHAR", "REP", "CHARWD", "DESIGNSIZE", "CHECKSUM", "HEADER", "FONTDIMEN", "PARAMETER", "O", "é", "\r", "\r\n", "\n\r", "😀",
];

fn nesting_cases(thorough: bool) -> Vec<(String, String)> {
    let mut out = vec![];
    let mut ns = vec![1usize, 2, 3, 10, 100, 1000, 10_000, 100_000];
    if thorough {
        ns.push(1_000_000);
    }
    for t in ["", " ", "\n", "\t \n", "()", "( )", "(COMMENT)", "(LIGTABLE)", "(FONTDIMEN)", "(CHARACTER)", "(VARCHAR)", "(CHARACTER C A)", "(CHARACTER C A (VARCHAR))", "(LIGTABLE (LABEL C A))", "(LIGTABLE (STOP))", "(LIGTABLE (SKIP D 1))", "(LIGTABLE (LABEL BOUNDARYCHAR))"] {
        out.push((format!("empty / blank / bodyless text {t:?}"), t.to_string()));
    }
    for n in ns {
        for (name, open, close) in [("(", "(", ""), (")", ")", ""), ("(A", "(A ", ""), ("(CHARACTER C A", "(CHARACTER C A ", ""), ("(LIGTABLE", "(LIGTABLE ", ""), ("(COMMENT ... ) balanced", "(COMMENT ", ")"), ("(CHARACTER C A (COMMENT ... balanced", "(COMMENT ", ")"), ("(VARCHAR", "(VARCHAR ", ")")] {
            let mut s = String::new();
            if name.starts_with("(CHARACTER C A (COMMENT") {
                s.push_str("(CHARACTER C A ");
            }
            for _ in 0..n {
                s.push_str(open);
            }
            for _ in 0..n {
                s.push_str(close);
            }
            out.push((format!("`{name}` x {n}"), s));
        }
    }
    out
}

struct Fam {
    name: &'static str,
    bounds: String,
    n: u64,
}

struct Families {
    hdr_bases: Vec<(String, Vec<u8>)>,
    trunc_starts: Vec<u64>,
    mut_files: Vec<(usize, usize)>, // (tfm index, region length)
    mut_starts: Vec<u64>,
    pair_bases: Vec<(String, Vec<u8>)>,
    text: TextFamily,
    nesting: Vec<(String, String)>,
    many: Vec<(String, String)>,
    limit_tfms_cell: std::sync::OnceLock<Vec<(String, Vec<u8>)>>,
    limit_pls_cell: std::sync::OnceLock<Vec<(String, String, usize)>>,
    /// (description, text) and prefix sums of len+1: line-ending variants of corpus PLs and templates
    le_cell: std::sync::OnceLock<(Vec<(String, String)>, Vec<u64>)>,
    hdr_sweep: Vec<(String, Vec<u8>)>,
    vocab_len: u32,
}

fn region_len(b: &[u8]) -> usize {
    // header + char_info + lig/kern region as far as the size table can be trusted, else the whole file
    if b.len() < 24 {
        return b.len();
    }
    let g = |i: usize| u16::from_be_bytes([b[2 * i], b[2 * i + 1]]) as usize;
    let (lh, bc, ec, nw, nh, nd, ni, nl) = (g(1), g(2), g(3), g(4), g(5), g(6), g(7), g(8));
    let nc = (ec + 1).saturating_sub(bc);
    (24 + 4 * (lh + nc + nw + nh + nd + ni + nl)).min(b.len())
}

impl Families {
    /// the large generated lists are only built by the processes that need them
    fn limit_tfms(&self) -> &Vec<(String, Vec<u8>)> {
        self.limit_tfms_cell.get_or_init(limit_tfm_cases)
    }
    fn limit_pls(&self) -> &Vec<(String, String, usize)> {
        self.limit_pls_cell.get_or_init(limit_pl_cases)
    }
    /// Every text-family corpus PL and every template (first lattice values, one property per line) with
    /// its line ends turned into CR LF, CR, CR CR LF; cases = every truncation of every variant.
    fn line_endings(&self, d: &Data) -> &(Vec<(String, String)>, Vec<u64>) {
        self.le_cell.get_or_init(|| {
            let mut bases: Vec<(String, String)> = self.text.files.iter().map(|(pi, _, _)| d.pls[*pi].clone()).collect();
            for (k, (tpl, _)) in TEMPLATES.iter().enumerate() {
                let idx = template_sizes()[k];
                bases.push((format!("template {k} `{}`", vcore::clip(tpl, 40)), template_case(idx).replace(")(", ")\n(") + "\n"));
            }
            let mut out = vec![];
            for (name, t) in bases {
                let unix = t.replace("\r\n", "\n");
                let unix = if unix.contains('\n') { unix } else { format!("{unix}\n") };
                for (v, le) in [("CR LF", "\r\n"), ("CR", "\r"), ("CR CR LF", "\r\r\n")] {
                    out.push((format!("{name} with {v} line ends"), unix.replace('\n', le)));
                }
            }
            let mut starts = vec![0u64];
            for (_, t) in &out {
                starts.push(starts.last().unwrap() + t.len() as u64 + 1);
            }
            (out, starts)
        })
    }
    fn line_ending_case(&self, d: &Data, idx: u64) -> Option<(String, String)> {
        let (list, starts) = self.line_endings(d);
        let fi = starts.partition_point(|s| *s <= idx) - 1;
        let l = (idx - starts[fi]) as usize;
        let (name, t) = &list[fi];
        if !t.is_char_boundary(l) {
            return None;
        }
        Some((format!("{name}, truncated to {l} of {} bytes", t.len()), t[..l].to_string()))
    }
    fn new(d: &Data) -> Families {
        let find = |n: &str| d.tfms.iter().find(|x| x.0 == n).cloned();
        let mut hdr_bases: Vec<(String, Vec<u8>)> = vec![];
        if d.thorough {
            hdr_bases.extend(d.tfms.iter().cloned());
        } else {
            for n in ["computer-modern/cmr10.tfm", "computer-modern/cmex10.tfm", "originals/empty.tfm", "originals/many-ligatures.tfm"] {
                if let Some(x) = find(n) {
                    hdr_bases.push(x);
                }
            }
        }
        hdr_bases.extend(d.synth.iter().cloned());
        if let Some((n, b)) = find("computer-modern/cmr10.tfm") {
            for l in [8usize, 16, 24, 28] {
                hdr_bases.push((format!("{n} truncated to {l} bytes"), b[..l].to_vec()));
            }
        }
        let mut trunc_starts = vec![0u64];
        for (_, b) in &d.tfms {
            trunc_starts.push(trunc_starts.last().unwrap() + b.len() as u64 + 1);
        }
        let (n_small, max_len) = if d.thorough { (usize::MAX, 2600usize) } else { (60usize, 420usize) };
        let mut mut_files = vec![];
        let mut mut_starts = vec![0u64];
        // fonts whose property list is huge (originals/many-entrypoints.tfm: 2 kB of TFM, 750 kB of PL)
        // would make every mutation cost 0.1 s; they stay in the header, truncation and text families
        // size of the property list recorded next to the font in the corpus (the subject is never called outside a worker)
        let pl_small = |name: &str| d.pls.iter().find(|p| p.0 == name.replace(".tfm", ".plst")).map(|p| p.1.len()).unwrap_or(0) <= 60_000;
        for (i, (_, b)) in d.tfms.iter().enumerate().filter(|(_, x)| x.1.len() >= 24 && x.1.len() <= max_len && pl_small(&x.0)).take(n_small) {
            let r = region_len(b);
            mut_files.push((i, r));
            mut_starts.push(mut_starts.last().unwrap() + r as u64 * 256);
        }
        let pair_bases: Vec<(String, Vec<u8>)> = d.synth.iter().filter(|x| x.0.contains("min")).take(if d.thorough { 2 } else { 1 }).cloned().collect();
        Families { hdr_bases, trunc_starts, mut_files, mut_starts, pair_bases, text: TextFamily::new(d), nesting: nesting_cases(d.thorough), many: many_entrypoints_cases(), limit_tfms_cell: Default::default(), limit_pls_cell: Default::default(), le_cell: Default::default(), hdr_sweep: header_sweep_bases(), vocab_len: if d.thorough { 5 } else { 4 } }
    }
    fn list(&self, d: &Data) -> Vec<Fam> {
        vec![
            Fam { name: "tfm-header-words", bounds: format!("each of the twelve 16-bit words of the size table set to every value 0..65535, against {} base files ({})", self.hdr_bases.len(), if d.thorough { "every corpus font, synthetic minimal files, cmr10 truncated to 8/16/24/28 bytes" } else { "cmr10, cmex10, empty, many-ligatures, 5 synthetic minimal files, cmr10 truncated to 8/16/24/28 bytes" }), n: self.hdr_bases.len() as u64 * 12 * 65536 },
            Fam { name: "tfm-size-table-pairs", bounds: format!("every pair of byte positions inside the 24-byte size table set jointly to every pair of values, on {} synthetic minimal file(s)", self.pair_bases.len()), n: self.pair_bases.len() as u64 * 276 * 65536 },
            Fam { name: "tfm-truncations", bounds: format!("every truncation length of every corpus font ({} files)", d.tfms.len()), n: *self.trunc_starts.last().unwrap() },
            Fam { name: "tfm-byte-mutations", bounds: format!("every 1-byte mutation (256 values) of every byte of the size table, header, char_info, dimension and lig/kern region of the {} smallest corpus fonts of 24..{} bytes (whose recorded property list is at most 60 kB)", self.mut_files.len(), if d.thorough { 2600 } else { 420 }), n: *self.mut_starts.last().unwrap() },
            Fam { name: "pl-token-faults", bounds: format!("every token of {} corpus property lists (files up to {} bytes, first {} tokens): deleted, duplicated, file truncated there, a parenthesis inserted, replaced by each of {} menu items (numbers 0 255 256 2047 2048 -1 77777777777, fix_word boundaries, prefixes, keywords, parentheses), numbers replaced by the character code below the first / above the last CHARACTER, property names replaced by each of {} other property names", self.text.files.len(), if d.thorough { 25000 } else { 1500 }, if d.thorough { 1500 } else { 400 }, REPL.len(), PROPS.len()), n: self.text.len() },
            Fam { name: "pl-templates", bounds: format!("{} property list templates with every combination of hole values from lattices of {} fix_word texts, {} character code forms and {} integers (boundaries of every documented range)", TEMPLATES.len(), FIX.len(), CODES.len(), INTS.len()), n: *template_sizes().last().unwrap() },
            Fam { name: "pl-short-texts", bounds: format!("every text of <= {} tokens over a {}-token vocabulary (parentheses, property names, prefixes, numbers)", self.vocab_len, VOCAB.len()), n: vcore::strings_upto(VOCAB.len() as u64, self.vocab_len) },
            Fam { name: "tfm-size-limits", bounds: format!("{} size-consistent synthetic fonts: one of lh, nw, nh, nd, ni, nl, nk, ne, np, bc..ec at a time at its minimum, at the largest value its index field can address, one beyond, and near the 15-bit limit (lh 2..32000 incl. 271..275, nw/nh/nd/ni 1..32000, nl 0..32700 incl. 32509..32511, nk, ne 254..257, np 253..257), all tables at their maximum with 256 characters; characters pointing at the first or at the last entry", self.limit_tfms().len()), n: self.limit_tfms().len() as u64 },
            Fam { name: "tfm-max-length", bounds: "files of 131064 / 131068 / 131072 bytes declaring lf = 0x7FFF whose size words sum to 32766, 32767, 32768, 32769, 32779 and 65000+ words, the bulk in lh / nw / nl / nk / np (far too much: two tables at 32767), payload all 0x00 and all 0xFF".into(), n: N_MAXLEN },
            Fam { name: "tfm-header-bytes", bounds: "every byte of the header of two synthetic fonts (lh = 18 and lh = 20) set to every value 0..255 (checksum, design size, both string lengths and contents, seven-bit-safe byte, face byte, extra words)".into(), n: self.hdr_sweep.iter().map(|x| (x.1.len().min(24 + 80) - 24) as u64 * 256).sum() },
            Fam { name: "pl-size-limits", bounds: format!("{} property lists at the table-size limits: LIGTABLEs of 32509/32510/32511/40000/70000 instructions, 254/255/256 VARCHAR characters, 254..256 characters with as many distinct dimensions in one NEXTLARGER chain, 253..256/1000 parameters, math-font parameter counts, HEADER D 18..254/255/256/300, 255..32510 distinct kerns, string lengths 39..41/19..21/300, every FACE code 0..256", self.limit_pls().len()), n: self.limit_pls().len() as u64 },
            Fam { name: "pl-line-endings", bounds: format!("{} texts (every corpus property list of the token-fault family and every template, one property per line) x line ends CR LF / CR / CR CR LF, truncated at every byte position (incl. between CR and LF and after a final CR)", self.line_endings(d).0.len() / 3), n: *self.line_endings(d).1.last().unwrap() },
            Fam { name: "pl-many-entrypoints", bounds: format!("{} property lists: 254/255/256 characters each labelling its own one-instruction chain, behind 0/1/2/3/254/255/256/300 unlabelled instructions, with and without a boundary label (up to 257 entry points in need of a restart word)", self.many.len()), n: self.many.len() as u64 },
            Fam { name: "pl-nesting", bounds: format!("{} texts of 1..10^{} repeated openers / closers / nested comments (unbalanced and balanced)", self.nesting.len(), if d.thorough { 6 } else { 5 }), n: self.nesting.len() as u64 },
        ]
    }

    /// Run one case of one family (inside a worker).
    fn run(&self, d: &Data, fam: &str, idx: u64, w: &mut W) {
        match fam {
            "tfm-header-words" => {
                let dg = vcore::digits(idx, &[self.hdr_bases.len() as u64, 12, 65536]);
                let (name, base) = &self.hdr_bases[dg[0] as usize];
                let word = dg[1] as usize;
                if 2 * word + 1 >= base.len() {
                    w.acc.skipped += 1;
                    return;
                }
                let mut m = base.clone();
                m[2 * word] = (dg[2] >> 8) as u8;
                m[2 * word + 1] = dg[2] as u8;
                let names = ["lf", "lh", "bc", "ec", "nw", "nh", "nd", "ni", "nl", "nk", "ne", "np"];
                check_bytes(w, idx, &m, &|| bytes_case(fam, idx, &m, format!("{name}: {} = {}", names[word], dg[2])));
            }
            "tfm-size-table-pairs" => {
                let dg = vcore::digits(idx, &[self.pair_bases.len() as u64, 276, 256, 256]);
                let (name, base) = &self.pair_bases[dg[0] as usize];
                // the dg[1]-th pair p<q of 0..24
                let (mut p, mut r) = (0u64, dg[1]);
                while r >= 23 - p {
                    r -= 23 - p;
                    p += 1;
                }
                let q = p + 1 + r;
                let mut m = base.clone();
                m[p as usize] = dg[2] as u8;
                m[q as usize] = dg[3] as u8;
                check_bytes(w, idx, &m, &|| bytes_case(fam, idx, &m, format!("{name}: byte {p} = {}, byte {q} = {}", dg[2], dg[3])));
            }
            "tfm-truncations" => {
                let fi = self.trunc_starts.partition_point(|s| *s <= idx) - 1;
                let l = (idx - self.trunc_starts[fi]) as usize;
                let (name, b) = &d.tfms[fi];
                check_bytes(w, idx, &b[..l], &|| bytes_case(fam, idx, &b[..l], format!("{name} truncated to {l} of {} bytes", b.len())));
            }
            "tfm-byte-mutations" => {
                let fi = self.mut_starts.partition_point(|s| *s <= idx) - 1;
                let r = idx - self.mut_starts[fi];
                let (ti, _) = self.mut_files[fi];
                let (pos, v) = ((r / 256) as usize, (r % 256) as u8);
                let (name, b) = &d.tfms[ti];
                if b[pos] == v {
                    w.acc.skipped += 1;
                    return;
                }
                let mut m = b.clone();
                m[pos] = v;
                check_bytes(w, idx, &m, &|| bytes_case(fam, idx, &m, format!("{name}: byte {pos} = {v} (was {})", b[pos])));
            }
            "pl-token-faults" => match self.text.case(d, idx) {
                None => w.acc.skipped += 1,
                Some((what, text)) => check_text(w, idx, &text, &|| text_case(fam, idx, &text, what.clone())),
            },
            "pl-templates" => {
                let text = template_case(idx);
                check_text(w, idx, &text, &|| text_case(fam, idx, &text, "template".into()));
            }
            "pl-short-texts" => {
                let toks = vcore::nth_string(VOCAB.len() as u64, idx);
                let text = toks.iter().map(|t| VOCAB[*t as usize]).collect::<Vec<_>>().join(" ");
                check_text(w, idx, &text, &|| text_case(fam, idx, &text, "short text".into()));
            }
            "pl-nesting" => {
                let (what, text) = &self.nesting[idx as usize];
                check_text(w, idx, text, &|| text_case(fam, idx, text, what.clone()));
            }
            "pl-many-entrypoints" => {
                let (what, text) = &self.many[idx as usize];
                check_text(w, idx, text, &|| text_case(fam, idx, text, what.clone()));
            }
            "pl-line-endings" => match self.line_ending_case(d, idx) {
                None => w.acc.skipped += 1,
                Some((what, text)) => check_text(w, idx, &text, &|| text_case(fam, idx, &text, what.clone())),
            },
            "pl-size-limits" => {
                let (what, text, needs) = &self.limit_pls()[idx as usize];
                NEEDS_WORDS.with(|c| c.set(*needs));
                check_text(w, idx, text, &|| {
                    let mut v = text_case(fam, idx, text, what.clone());
                    v["needs_words"] = json!(needs);
                    v
                });
                NEEDS_WORDS.with(|c| c.set(0));
            }
            "tfm-size-limits" => {
                let (what, b) = &self.limit_tfms()[idx as usize];
                check_bytes(w, idx, b, &|| bytes_case(fam, idx, b, what.clone()));
            }
            "tfm-max-length" => {
                let (what, b, sum) = max_len_case(idx);
                if sum > 32767 && b.len() >= 131068 {
                    w.acc.count("tfm_file_of_max_length_with_oversized_tables");
                }
                check_bytes(w, idx, &b, &|| json!({"kind": "bytes", "family": fam, "index": idx, "tier": tier_name(), "what": what, "len": b.len()}));
            }
            "tfm-header-bytes" => {
                let mut r = idx;
                for (name, b) in &self.hdr_sweep {
                    let n = (b.len().min(24 + 80) - 24) as u64 * 256;
                    if r < n {
                        let (pos, v) = (24 + (r / 256) as usize, (r % 256) as u8);
                        let mut m = b.clone();
                        m[pos] = v;
                        check_bytes(w, idx, &m, &|| bytes_case(fam, idx, &m, format!("{name}: header byte {} = {v}", pos - 24)));
                        return;
                    }
                    r -= n;
                }
            }
            _ => panic!("unknown family {fam}"),
        }
    }
}

static THOROUGH: std::sync::atomic::AtomicBool = std::sync::atomic::AtomicBool::new(false);
fn tier_name() -> &'static str {
    if THOROUGH.load(std::sync::atomic::Ordering::Relaxed) {
        "thorough"
    } else {
        "quick"
    }
}
fn bytes_case(fam: &str, idx: u64, b: &[u8], what: String) -> Value {
    let mut v = json!({"kind": "bytes", "family": fam, "index": idx, "tier": tier_name(), "what": what, "len": b.len()});
    if b.len() <= 16384 {
        v["hex"] = json!(hex(b));
    }
    v
}
fn text_case(fam: &str, idx: u64, t: &str, what: String) -> Value {
    let mut v = json!({"kind": "text", "family": fam, "index": idx, "tier": tier_name(), "what": what, "len": t.len()});
    if t.len() <= 32768 {
        v["text"] = json!(t);
    }
    v
}

// ------------------------------------------------------------------ worker side

fn worker_main(args: &[String]) -> ! {
    // --worker <family> <lo> <hi> <progress file> <tier>   |   --worker-replay <replay file> <progress file>
    vcore::pan::install_hook();
    let args: Vec<String> = args.to_vec();
    let h = std::thread::Builder::new()
        .stack_size(512 << 20)
        .spawn(move || {
            let mut w = W::default();
            if args[0] == "--worker-replay" {
                let v: Value = serde_json::from_str(&std::fs::read_to_string(&args[1]).expect("replay file")).expect("replay json");
                let case = &v["case"];
                let c2 = case.clone();
                if let Some(h) = case["hex"].as_str() {
                    check_bytes(&mut w, 0, &unhex(h), &|| c2.clone());
                } else if let Some(t) = case["text"].as_str() {
                    NEEDS_WORDS.with(|c| c.set(case["needs_words"].as_u64().unwrap_or(0) as usize));
                    check_text(&mut w, 0, t, &|| c2.clone());
                } else {
                    // large cases are rebuilt from their family and index
                    let fam = case["family"].as_str().unwrap_or("").to_string();
                    let d = load(case["tier"].as_str() == Some("thorough"));
                    let f = Families::new(&d);
                    f.run(&d, &fam, case["index"].as_u64().unwrap_or(0), &mut w);
                }
            } else {
                let fam = args[1].clone();
                let (lo, hi): (u64, u64) = (args[2].parse().unwrap(), args[3].parse().unwrap());
                let progress = std::fs::OpenOptions::new().write(true).create(true).truncate(false).open(&args[4]).expect("progress file");
                let d = load(args[5] == "thorough");
                let f = Families::new(&d);
                for idx in lo..hi {
                    let _ = progress.write_at(&idx.to_le_bytes(), 0);
                    f.run(&d, &fam, idx, &mut w);
                }
                let _ = progress.write_at(&u64::MAX.to_le_bytes(), 0);
            }
            println!("RESULT {}", serde_json::to_string(&w_to_json(&w)).unwrap());
        })
        .expect("spawn worker thread");
    match h.join() {
        Ok(()) => std::process::exit(0),
        Err(_) => {
            // a panic outside `catch` is harness trouble
            eprintln!("worker: harness code panicked");
            std::process::exit(3)
        }
    }
}

// ------------------------------------------------------------------ parent side

struct Job {
    lo: u64,
    hi: u64,
}

enum Outcome {
    Done(W),
    /// died or hung while running case `at`
    Died { at: u64, how: String },
    Broken(String),
}

fn run_worker(fam: &str, lo: u64, hi: u64, tier: &str, slot: usize, stall: Duration) -> Outcome {
    let exe = std::env::current_exe().expect("current_exe");
    let dir = std::env::temp_dir().join(format!("c10-{}", std::process::id()));
    let _ = std::fs::create_dir_all(&dir);
    let pf = dir.join(format!("progress-{slot}"));
    let _ = std::fs::write(&pf, u64::MAX.to_le_bytes());
    let mut child = match Command::new(exe).args(["--worker", fam, &lo.to_string(), &hi.to_string(), pf.to_str().unwrap(), tier]).stdin(Stdio::null()).stdout(Stdio::piped()).stderr(Stdio::piped()).spawn() {
        Ok(c) => c,
        Err(e) => return Outcome::Broken(format!("cannot spawn worker: {e}")),
    };
    let mut stdout = child.stdout.take().unwrap();
    let mut stderr = child.stderr.take().unwrap();
    let out_t = std::thread::spawn(move || {
        let mut s = String::new();
        let _ = stdout.read_to_string(&mut s);
        s
    });
    let err_t = std::thread::spawn(move || {
        let mut s = Vec::new();
        let _ = stderr.read_to_end(&mut s);
        String::from_utf8_lossy(&s).to_string()
    });
    let read_progress = || -> u64 { std::fs::read(&pf).ok().filter(|b| b.len() >= 8).map(|b| u64::from_le_bytes(b[..8].try_into().unwrap())).unwrap_or(u64::MAX) };
    let mut last = (read_progress(), Instant::now());
    let status = loop {
        match child.try_wait() {
            Ok(Some(s)) => break Some(s),
            Ok(None) => {}
            Err(_) => break None,
        }
        let p = read_progress();
        if p != last.0 {
            last = (p, Instant::now());
        } else if p != u64::MAX && last.1.elapsed() > stall {
            let _ = child.kill();
            let _ = child.wait();
            return Outcome::Died { at: p, how: format!("no return within {} s (worker killed)", stall.as_secs()) };
        }
        std::thread::sleep(Duration::from_millis(20));
    };
    let out = out_t.join().unwrap_or_default();
    let err = err_t.join().unwrap_or_default();
    let at = read_progress();
    if let Some(line) = out.lines().rev().find(|l| l.starts_with("RESULT ")) {
        if status.map(|s| s.success()).unwrap_or(false) {
            return match serde_json::from_str::<Value>(&line[7..]) {
                Ok(v) => Outcome::Done(w_from_json(&v)),
                Err(e) => Outcome::Broken(format!("worker result unreadable: {e}")),
            };
        }
    }
    match status {
        Some(s) if s.code() == Some(3) => Outcome::Broken(format!("worker harness panic: {}", vcore::clip(&err, 400))),
        Some(s) if at != u64::MAX && at >= lo && at < hi => {
            use std::os::unix::process::ExitStatusExt;
            let how = match s.signal() {
                Some(sig) => format!("process killed by signal {sig}"),
                None => format!("process exited with status {:?}", s.code()),
            };
            Outcome::Died { at, how: format!("{how}; stderr: {}", vcore::clip(err.trim(), 300)) }
        }
        other => Outcome::Broken(format!("worker for {fam} {lo}..{hi} ended with {other:?} outside a case; stderr: {}", vcore::clip(&err, 400))),
    }
}

fn run_family(ctx: &mut Ctx, fam: &Fam, d: &Data, f: &Families, tier: &str) {
    if !ctx.wants(fam.name) {
        return;
    }
    let t0 = Instant::now();
    let threads = ctx.threads.max(1);
    let chunks = (threads as u64 * 6).min(fam.n.max(1));
    let per = fam.n.div_ceil(chunks.max(1)).max(1);
    let jobs: std::sync::Mutex<Vec<Job>> = std::sync::Mutex::new((0..chunks).rev().map(|c| Job { lo: c * per, hi: ((c + 1) * per).min(fam.n) }).filter(|j| j.lo < j.hi).collect());
    let total = std::sync::Mutex::new(W::default());
    let broken = std::sync::Mutex::new(Vec::<String>::new());
    let deadline = Instant::now() + Duration::from_secs_f64(ctx.remaining_s());
    let capped = std::sync::atomic::AtomicBool::new(false);
    let stall = Duration::from_secs(if tier == "thorough" { 300 } else { 90 });
    std::thread::scope(|s| {
        for slot in 0..threads {
            let (jobs, total, broken, capped) = (&jobs, &total, &broken, &capped);
            s.spawn(move || loop {
                let Some(job) = jobs.lock().unwrap().pop() else { break };
                if Instant::now() >= deadline {
                    capped.store(true, std::sync::atomic::Ordering::Relaxed);
                    break;
                }
                match run_worker(fam.name, job.lo, job.hi, tier, slot, stall) {
                    Outcome::Done(w) => w_merge(&mut total.lock().unwrap(), w),
                    Outcome::Broken(m) => broken.lock().unwrap().push(m),
                    Outcome::Died { at, how } => {
                        // A case that only *stalled* (slow machine?) is run once more, alone, with ten
                        // minutes; it fails only if it does not return then either.
                        if how.starts_with("no return within") {
                            if let Outcome::Done(w) = run_worker(fam.name, at, at + 1, tier, slot, Duration::from_secs(600)) {
                                w_merge(&mut total.lock().unwrap(), w);
                                let mut j = jobs.lock().unwrap();
                                if at + 1 < job.hi {
                                    j.push(Job { lo: at + 1, hi: job.hi });
                                }
                                if job.lo < at {
                                    j.push(Job { lo: job.lo, hi: at });
                                }
                                continue;
                            }
                        }
                        // the case at `at` killed the process: rebuild its description in-process
                        // (building a case never calls the subject), record the failure, re-run the rest
                        let mut w = W::default();
                        let case = describe_case(d, f, fam.name, at);
                        w.acc.evals += 1;
                        w.acc.class(&format!("ABORT {}", vcore::clip(&how, 60)));
                        note_site(&mut w, &format!("abort: {}", vcore::clip(&how, 60)), at, &|| case.clone(), &how, "the process did not survive this input", true);
                        w.acc.fail(at, case.clone(), "a result or a documented error, plus warnings", how, "the process did not survive this input");
                        w_merge(&mut total.lock().unwrap(), w);
                        let mut j = jobs.lock().unwrap();
                        if at + 1 < job.hi {
                            j.push(Job { lo: at + 1, hi: job.hi });
                        }
                        if job.lo < at {
                            j.push(Job { lo: job.lo, hi: at });
                        }
                    }
                }
            });
        }
    });
    for m in broken.into_inner().unwrap() {
        ctx.machinery_error(m);
    }
    let mut w = total.into_inner().unwrap();
    let mut sites = SITES.lock().unwrap();
    // One replayable failing case per *distinct* site over the whole run (the smallest index inside
    // the first family that reaches the site), instead of the six smallest indices of one site.
    let mut firsts: Vec<Fail> = vec![];
    for (k, (n, i, c, ob, no, is_fail)) in &w.sites {
        sites.push(json!({"family": fam.name, "site": k, "cases": n, "first_index": i, "first_case": c, "observed": ob}));
        let key = k.split_once(": ").map(|x| x.1).unwrap_or(k).to_string(); // without the stage prefix
        if *is_fail && SEEN_SITES.lock().unwrap().insert(key) {
            firsts.push(Fail { idx: *i, case: c.clone(), expected: "a result or a documented error, plus warnings; output that re-reads".into(), observed: ob.clone(), note: no.clone() });
        }
    }
    firsts.sort_by_key(|f| f.idx);
    for f in &firsts {
        SITE_REPLAYS.lock().unwrap().push((fam.name.to_string(), f.clone()));
    }
    if w.acc.fail_count > 0 {
        w.acc.fails = firsts;
    }
    let is_capped = capped.load(std::sync::atomic::Ordering::Relaxed);
    ctx.push_family(fam.name, &fam.bounds, !is_capped, if is_capped { Some("wall cap hit before every index range was handed to a worker".into()) } else { None }, t0.elapsed().as_secs_f64(), w.acc);
}

static SITES: std::sync::Mutex<Vec<Value>> = std::sync::Mutex::new(vec![]);
static SITE_REPLAYS: std::sync::Mutex<Vec<(String, Fail)>> = std::sync::Mutex::new(vec![]);
static SEEN_SITES: std::sync::Mutex<std::collections::BTreeSet<String>> = std::sync::Mutex::new(std::collections::BTreeSet::new());

/// Description of a case without running it.
fn describe_case(d: &Data, f: &Families, fam: &str, idx: u64) -> Value {
    // run the family code with a recording stub: cheap re-derivation by pattern
    match fam {
        "pl-token-faults" => match f.text.case(d, idx) {
            Some((what, text)) => text_case(fam, idx, &text, what),
            None => json!({"family": fam, "index": idx}),
        },
        "pl-templates" => text_case(fam, idx, &template_case(idx), "template".into()),
        "pl-short-texts" => {
            let toks = vcore::nth_string(VOCAB.len() as u64, idx);
            text_case(fam, idx, &toks.iter().map(|t| VOCAB[*t as usize]).collect::<Vec<_>>().join(" "), "short text".into())
        }
        "pl-nesting" => {
            let (what, text) = &f.nesting[idx as usize];
            text_case(fam, idx, text, what.clone())
        }
        "pl-many-entrypoints" => {
            let (what, text) = &f.many[idx as usize];
            text_case(fam, idx, text, what.clone())
        }
        "pl-line-endings" => match f.line_ending_case(d, idx) {
            Some((what, text)) => text_case(fam, idx, &text, what),
            None => json!({"family": fam, "index": idx}),
        },
        "pl-size-limits" => {
            let (what, text, needs) = &f.limit_pls()[idx as usize];
            let mut v = text_case(fam, idx, text, what.clone());
            v["needs_words"] = json!(needs);
            v
        }
        _ => json!({"kind": "bytes", "family": fam, "index": idx, "tier": if d.thorough { "thorough" } else { "quick" }, "what": "rebuilt from family and index on replay"}),
    }
}

// ------------------------------------------------------------------ model self-validation

/// tfmraw against the repository's recorded expectations: the malformed headers of
/// deserialize.rs `deserialize_tests!` (each a TFtoPL-confirmed rejection) must be rejected, the
/// corpus fonts Knuth's TFtoPL converts without message (tfm-bin/tests/convert.rs) must be accepted.
fn self_validate(ctx: &mut Ctx, d: &Data) {
    let st = |v: [u16; 12], extra: usize| {
        let mut b = size_table(v);
        b.extend(vec![0u8; extra]);
        b
    };
    let rejects: Vec<(&str, Vec<u8>)> = vec![
        ("empty_file", vec![]),
        ("single_byte_1", vec![2]),
        ("internal_file_length_is_negative", st([0xff00, 0, 0, 0, 0, 0, 0, 0, 0, 0, 0, 0], 0)),
        ("header_length_too_small_1", st([12, 1, 1, 0, 1, 1, 1, 1, 0, 0, 0, 0], 24)),
        ("invalid_character_range_1", st([12, 2, 2, 0, 1, 1, 1, 1, 0, 0, 0, 0], 24)),
        ("incomplete_sub_files", st([11, 2, 1, 0, 0, 1, 1, 1, 0, 0, 0, 0], 20)),
        ("too_many_extensible_characters", st([269, 2, 1, 0, 1, 1, 1, 1, 0, 0, 257, 0], 269 * 4 - 24)),
        ("inconsistent_sub_file_sizes", st([13, 2, 1, 0, 1, 1, 1, 1, 0, 0, 0, 0], 28)),
    ];
    for (name, b) in rejects {
        if tfmraw::parse(&b).is_ok() {
            ctx.machinery_error(format!("model self-validation: tfmraw accepts the malformed file of deserialize.rs test `{name}`"));
        }
    }
    for n in ["computer-modern/cmr10.tfm", "computer-modern/cmex10.tfm", "originals/empty.tfm", "originals/many-ligatures.tfm", "ctan/aebkri.tfm"] {
        match d.tfms.iter().find(|x| x.0 == n) {
            None => ctx.machinery_error(format!("self-validation: corpus file {n} not found")),
            Some((_, b)) => {
                if let Err(e) = tfmraw::parse(b) {
                    ctx.machinery_error(format!("model self-validation: tfmraw rejects {n}: {e:?}"));
                }
            }
        }
    }
    for (n, b) in &d.synth {
        if n.contains("min") && tfmraw::parse(b).is_err() {
            ctx.machinery_error(format!("self-validation: synthetic base {n} is not a valid TFM: {:?}", tfmraw::parse(b)));
        }
    }
}

fn main() {
    let args: Vec<String> = std::env::args().collect();
    if let Some(p) = args.iter().position(|a| a == "--worker" || a == "--worker-replay") {
        worker_main(&args[p..]);
    }
    let mut ctx = Ctx::new("C10", Level::FaultEnumeration);
    ctx.assume("`readable TFM` = tfm::File::deserialize returns Ok and the independent reader reftex::tfmraw accepts the size table (TFtoPL §20-21 / TeX §565-566 conditions, byte length = 4*lf)");
    ctx.assume("tfm_to_pl output is fed back into pl_to_tfm and pl_to_tfm output into tfm_to_pl: both compositions must also return");
    ctx.assume("known finding D9b-tfm-too-big applies only to generated property lists whose generator computed that the tables need more than 32767 words, and only if pl_to_tfm returns and the reader rejects the bytes with InconsistentSubFileSizes on a saturated length field");
    ctx.assume("a worker process that dies on a case counts as a failure of that case; a case without progress for 90 s (quick) / 300 s (thorough) is re-run alone and fails only if it does not return within 600 s then");
    let tier = if ctx.quick() { "quick" } else { "thorough" };
    let d = load(!ctx.quick());
    if let Some((_fam, _case)) = ctx.replay_case() {
        // replay in a subprocess as well: the case may abort the process
        let exe = std::env::current_exe().expect("current_exe");
        let path = ctx.replay.clone().unwrap();
        let out = Command::new(exe).args(["--worker-replay", path.to_str().unwrap()]).stdin(Stdio::null()).output().expect("spawn replay worker");
        let so = String::from_utf8_lossy(&out.stdout).to_string();
        let mut acc = Acc::default();
        match so.lines().rev().find(|l| l.starts_with("RESULT ")) {
            Some(l) if out.status.success() => acc = w_from_json(&serde_json::from_str(&l[7..]).unwrap_or(Value::Null)).acc,
            _ => acc.fail(0, _case.clone(), "a result or a documented error", format!("replay worker ended with {:?}; stderr: {}", out.status, vcore::clip(&String::from_utf8_lossy(&out.stderr), 300)), "the process did not survive this input"),
        }
        ctx.finish_replay(acc);
    }
    self_validate(&mut ctx, &d);
    let f = Families::new(&d);
    for fam in f.list(&d) {
        run_family(&mut ctx, &fam, &d, &f, tier);
    }
    let _ = std::fs::remove_dir_all(std::env::temp_dir().join(format!("c10-{}", std::process::id())));
    let mut sites = SITES.lock().unwrap().clone();
    sites.sort_by_key(|s| (s["site"].as_str().unwrap_or("").to_string(), s["first_index"].as_u64().unwrap_or(0)));
    for s in &sites {
        eprintln!("  site [{}] {} case(s), first: {}", s["family"].as_str().unwrap_or(""), s["cases"], vcore::clip(&format!("{} :: {}", s["site"].as_str().unwrap_or(""), s["first_case"]["what"].as_str().unwrap_or("")), 400));
    }
    ctx.extra("panic_sites", json!(sites));
    // Ctx::finish writes replay files for the six failing cases with the smallest indices only; every
    // distinct site gets its own replay file here (prefix C10s-, same format, same `--replay` use).
    if ctx.replay.is_none() && ctx.only_family.is_none() {
        let dir = std::path::PathBuf::from(std::env::var("VERIF_OUT").unwrap_or_else(|_| "/verif".into())).join("replays");
        let _ = std::fs::create_dir_all(&dir);
        if let Ok(rd) = std::fs::read_dir(&dir) {
            for e in rd.flatten() {
                if e.file_name().to_string_lossy().starts_with("C10s-") {
                    let _ = std::fs::remove_file(e.path());
                }
            }
        }
        for (k, (fam, f)) in SITE_REPLAYS.lock().unwrap().iter().enumerate() {
            let p = dir.join(format!("C10s-{}.json", k + 1));
            let v = json!({"property": "C10", "family": fam, "idx": f.idx, "case": f.case, "expected": f.expected, "observed": f.observed, "note": f.note, "replay": format!("./check C10 --replay {}", p.display())});
            let _ = std::fs::write(&p, serde_json::to_string_pretty(&v).unwrap());
            eprintln!("  distinct failing site {}: {} -> {}", k + 1, vcore::clip(&f.observed, 140), p.display());
        }
    }
    ctx.require("tfm_file_of_max_length_with_oversized_tables", "a file of at least 131068 bytes with lf = 0x7FFF whose size words sum to more than 32767");
    ctx.require("other_display_formats_converted", "byte strings that convert were also converted with the Ascii and Octal display formats");
    ctx.require("faulted_tfm_passes_size_checks", "faulted byte strings whose size table is still consistent (the reader goes past the header checks)");
    ctx.require("faulted_pl_with_balanced_parentheses", "faulted texts that are still balanced property lists (the parser goes past the structure checks)");
    ctx.require("faulted_pl_with_unbalanced_parentheses", "faulted texts with unbalanced parentheses");
    ctx.finish("one evaluation per faulted input (a byte string given to tfm_to_pl, or a text given to pl_to_tfm, each followed by the opposite conversion of whatever was produced); non-trivial = the faulted TFM still converts to a property list, resp. the faulted property list draws at least one warning");
}
