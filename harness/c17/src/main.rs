//! C17 — font-metric arithmetic: fix_word text, store_scaled, table compression, next-larger chains.
//! Engine: BEX (bounded exhaustive enumeration, four parts). DESIGN.md §3 C17.
//!
//! Part 1  fix_word text   Display (TFtoPL §40-43) and the PL reader (PLtoTF §62-66), through whole property
//!                         lists: `pl::File{params}.display()` -> text -> `pl::File::from_pl_source_code`.
//! Part 2  to_scaled       against TeX §568/§571-572 `store_scaled`.
//! Part 3  compress        against the brute-force minimal tolerance (PLtoTF §75-80).
//! Part 4  next larger     against TFtoPL §84 (cut at the largest character of every cycle).

use reftex::fix::{self, NlWarning};
use serde_json::{json, Value};
use tfm::{Char, FixWord, NextLargerProgram, NextLargerProgramWarning};
use vcore::{catch, Acc, Ctx, Level};

// ------------------------------------------------------------------------------------------------
// ranges of 32-bit patterns
// ------------------------------------------------------------------------------------------------

fn merge(mut r: Vec<(u64, u64)>) -> Vec<(u64, u64)> {
    r.sort();
    let mut out: Vec<(u64, u64)> = vec![];
    for (a, b) in r {
        if let Some(l) = out.last_mut() {
            if a <= l.1 {
                l.1 = l.1.max(b);
                continue;
            }
        }
        out.push((a, b));
    }
    out
}
fn total(r: &[(u64, u64)]) -> u64 {
    r.iter().map(|(a, b)| b - a).sum()
}
fn nth(r: &[(u64, u64)], mut idx: u64) -> u32 {
    for (a, b) in r {
        if idx < b - a {
            return (a + idx) as u32;
        }
        idx -= b - a;
    }
    unreachable!("index outside the ranges")
}

const ALL: u64 = 1 << 32;

/// Half-open ranges of u32 bit patterns for the fix_word text sweep.
fn text_ranges(quick: bool) -> Vec<(u64, u64)> {
    if !quick {
        return vec![(0, ALL)];
    }
    // |x| < 2^24 (every value that is legal as a font dimension, |value| < 16.0) ...
    let mut r = vec![(0, 1 << 24), (ALL - (1 << 24), ALL)];
    // ... and windows of +-4096 around +-2^k up to the ends of the 32-bit range
    for k in 24..=31u32 {
        let p = 1u64 << k;
        r.push((p.saturating_sub(4096), (p + 4096).min(ALL)));
        let q = ALL - p;
        r.push((q.saturating_sub(4096), (q + 4096).min(ALL)));
    }
    // ... and around multiples of 100.0 / 1000.0 / 2047.0 (integer parts with 3 and 4 digits)
    for v in [100i64, 999, 1000, 2046, 2047] {
        for s in [1i64, -1] {
            let c = ((s * v) << 20) as i32 as u32 as u64;
            r.push((c.saturating_sub(4096), (c + 4096 + (1 << 20)).min(ALL)));
        }
    }
    merge(r)
}

// ------------------------------------------------------------------------------------------------
// Part 1: fix_word text
// ------------------------------------------------------------------------------------------------

const BATCH: u64 = 254; // PARAMETER numbers 1..=254

/// The texts after " R " inside the FONTDIMEN list of a printed property list, in order.
fn fontdimen_reals(pl: &str) -> Vec<&str> {
    let Some(start) = pl.find("(FONTDIMEN") else { return vec![] };
    let mut out = vec![];
    let mut rest = &pl[start..];
    while let Some(i) = rest.find(" R ") {
        rest = &rest[i + 3..];
        let end = rest.find(')').unwrap_or(rest.len());
        out.push(rest[..end].trim_end());
        rest = &rest[end..];
    }
    out
}

/// One property list holding the patterns `bits[..]` as parameters 1..=n.
fn check_fix_batch(idx: u64, bits: &[u32], acc: &mut Acc) {
    let first = bits[0];
    let case = |bad: Option<u32>| json!({"kind": "fixbatch", "first": first, "count": bits.len(), "patterns": bits, "bits": bad, "value": bad.map(|b| format!("FixWord({}) = {}", b as i32, fix::print_fix(b as i32)))});
    // model
    let texts: Vec<String> = bits.iter().map(|b| fix::print_fix(*b as i32)).collect();
    let mut outside = false;
    let (mut seven, mut negfrac, mut beyond) = (0u64, 0u64, 0u64);
    for (b, t) in bits.iter().zip(&texts) {
        let x = *b as i32;
        acc.evals += 1;
        if x & 0xfffff != 0 {
            acc.nontrivial += 1;
        }
        if fix::text_used_rounding_branch(t) {
            seven += 1;
        }
        if x < 0 && x & 0xfffff != 0 {
            negfrac += 1;
        }
        if (x as i64).abs() >= 16 << 20 {
            beyond += 1;
        }
        match fix::parse_fix(t) {
            Ok(v) if v == x as i64 => {}
            Err(fix::FixErr::TooBig) if x == i32::MIN => outside = true,
            other => {
                // the reference programs themselves would not round-trip: that is a model defect
                acc.fail(idx, case(Some(*b)), format!("{x}"), format!("{other:?}"), format!("MODEL: PLtoTF §62-66 applied to TFtoPL §40-43 text {t:?} does not give the value back"));
                return;
            }
        }
    }
    for (name, k) in [("seven_digit_fraction", seven), ("negative_with_fraction", negfrac), ("beyond_16", beyond)] {
        if k > 0 {
            acc.count_n(name, k);
        }
    }
    // 1a: Display of every value
    let shown = catch(|| bits.iter().map(|b| FixWord(*b as i32).to_string()).collect::<Vec<String>>());
    let shown = match shown {
        Ok(s) => s,
        Err(p) => {
            acc.fail(idx, case(None), "text", p.describe(), "FixWord Display panicked");
            return;
        }
    };
    // The exact digits are TFtoPL's choice (§40-43 prints the shortest decimal); the property only asks for a
    // decimal that reads back to the value, so a different text is an outcome class. What is required of the
    // text is that it denotes the value under the PL format's own reading of a real (PLtoTF §62-66).
    let mut other_text = 0u64;
    for ((b, want), got) in bits.iter().zip(&texts).zip(&shown) {
        let x = *b as i32;
        if want != got {
            other_text += 1;
            if x != i32::MIN && fix::parse_fix(got) != Ok(x as i64) {
                acc.fail(idx, case(Some(*b)), format!("a decimal that PLtoTF §62-66 reads as {x} (TFtoPL prints {want})"), format!("{got} (read as {:?})", fix::parse_fix(got)), "the printed decimal does not denote the fix_word");
                return;
            }
        }
    }
    if other_text > 0 {
        *acc.classes.entry("text differs from TFtoPL §40-43 out_fix but denotes the same fix_word".into()).or_insert(0) += other_text;
    }
    // 1b: through a whole property list
    let r = catch(|| {
        let file = tfm::pl::File { params: bits.iter().map(|b| FixWord(*b as i32)).collect(), ..Default::default() };
        let text = format!("{}", file.display(3, tfm::pl::CharDisplayFormat::Default));
        let (back, warnings) = tfm::pl::File::from_pl_source_code(&text);
        let kinds: Vec<String> = warnings.iter().map(|w| format!("{:?}", w.kind)).collect();
        (text, back.params, kinds)
    });
    let (text, params, warnings) = match r {
        Ok(v) => v,
        Err(p) => {
            acc.fail(idx, case(if outside { Some(i32::MIN as u32) } else { None }), "a property list and its parse", p.describe(), "printing or parsing the property list panicked");
            return;
        }
    };
    // where the reals sit in the printed list is layout, not part of the property: recorded only
    let reals = fontdimen_reals(&text);
    if reals.len() != bits.len() || reals.iter().zip(&shown).any(|(a, b)| a != b) {
        acc.class("the printed property list does not show the Display texts as `R <text>` entries of FONTDIMEN, in order");
    }
    if params.len() > bits.len() {
        acc.class("the parsed property list has more parameters than were printed");
    }
    let zero = FixWord(0);
    for (k, b) in bits.iter().enumerate() {
        // a parameter that is absent reads as zero (trailing zero parameters need not be stored)
        let got = params.get(k).unwrap_or(&zero);
        let x = *b as i32;
        if x == i32::MIN {
            // -2048.0 is outside the PL format (PLtoTF: "Real constants must be less than 2048"); only "no panic" is required
            acc.class(&format!("outside the format: -2048.0 read back as {} with warnings {:?}", got.0, warnings));
            continue;
        }
        if got.0 != x {
            acc.fail(idx, case(Some(*b)), format!("{x}"), format!("{} (text {:?})", got.0, fix::print_fix(x)), "the PL reader does not return the fix_word that was printed");
            return;
        }
    }
    // warnings are not part of the statement (the values came back): recorded only
    acc.class(if outside {
        "batch with -2048.0"
    } else if !warnings.is_empty() {
        "batch round-trips, the reader warned"
    } else {
        "batch round-trips"
    });
    let mut by_digits = [0u64; 10];
    for t in &texts {
        by_digits[t.split('.').nth(1).map(|f| f.len()).unwrap_or(0).min(9)] += 1;
    }
    for (digits, k) in by_digits.iter().enumerate() {
        if *k > 0 {
            *acc.classes.entry(format!("fraction digits={digits}")).or_insert(0) += k;
        }
    }
}

// ------------------------------------------------------------------------------------------------
// Part 1b: the other places of a property list that hold a fix_word
// ------------------------------------------------------------------------------------------------

/// Boundary fix_words: every byte in {0,1,15,16,127,128,254,255} (4096 patterns; 0x80000000 = -2048.0, which
/// the format cannot express, is replaced by its neighbour).
fn route_lattice() -> Vec<i32> {
    let bs = [0u8, 1, 15, 16, 127, 128, 254, 255];
    let mut v = vec![];
    for a in bs {
        for b in bs {
            for c in bs {
                for d in bs {
                    let x = i32::from_be_bytes([a, b, c, d]);
                    v.push(if x == i32::MIN { i32::MIN + 1 } else { x });
                }
            }
        }
    }
    v
}
const ROUTES: [&str; 6] = ["CHARWD", "CHARHT", "CHARDP", "CHARIC", "KRN", "DESIGNSIZE"];
const ROUTE_BATCH: usize = 256;

/// One property list that carries `vals` through route `route` (and other lattice values in the neighbouring
/// slots); printed with `display`, read with `from_pl_source_code`, the values must come back.
fn check_route(idx: u64, route: usize, vals: &[i32], filler: &[i32], acc: &mut Acc) {
    let case = |bad: Option<i32>| json!({"kind": "route", "route": ROUTES[route], "values": vals, "filler": filler, "bad": bad, "text": bad.map(fix::print_fix)});
    for x in vals {
        acc.eval();
        if x & 0xfffff != 0 {
            acc.nontrivial();
        }
        acc.count(match route {
            0..=3 => "route_character_dimension",
            4 => "route_kern",
            _ => "route_design_size",
        });
    }
    let r = catch(|| {
        let mut file = tfm::pl::File::default();
        match route {
            0..=3 => {
                for (k, x) in vals.iter().enumerate() {
                    let f = |slot: usize| Some(FixWord(if slot == route { *x } else { filler[(k + slot) % filler.len()] }));
                    file.char_dimens.insert(Char(k as u8), tfm::pl::CharDimensions { width: f(0), height: f(1), depth: f(2), italic_correction: f(3) });
                }
            }
            4 => {
                file.char_dimens.insert(Char(65), tfm::pl::CharDimensions { width: Some(FixWord(filler[0])), ..Default::default() });
                file.char_tags.insert(Char(65), tfm::pl::CharTag::Ligature(0));
                for (k, x) in vals.iter().enumerate() {
                    file.char_dimens.entry(Char(k as u8)).or_insert(tfm::pl::CharDimensions { width: Some(FixWord(0)), ..Default::default() });
                    file.lig_kern_program.instructions.push(tfm::ligkern::lang::Instruction { next_instruction: if k + 1 == vals.len() { None } else { Some(0) }, right_char: Char(k as u8), operation: tfm::ligkern::lang::Operation::Kern(FixWord(*x)) });
                }
            }
            _ => file.header.design_size = FixWord(vals[0]),
        }
        let text = format!("{}", file.display(3, tfm::pl::CharDisplayFormat::Default));
        let (back, warnings) = tfm::pl::File::from_pl_source_code(&text);
        let got: Vec<Option<i32>> = match route {
            0..=3 => (0..vals.len())
                .map(|k| {
                    back.char_dimens.get(&Char(k as u8)).and_then(|d| match route {
                        0 => d.width,
                        1 => d.height,
                        2 => d.depth,
                        _ => d.italic_correction,
                    })
                    .map(|f| f.0)
                })
                .collect(),
            4 => (0..vals.len())
                .map(|k| match back.lig_kern_program.instructions.get(k).map(|i| i.operation) {
                    Some(tfm::ligkern::lang::Operation::Kern(f)) => Some(f.0),
                    _ => None,
                })
                .collect(),
            _ => vec![Some(back.header.design_size.0)],
        };
        (got, warnings.len(), text)
    });
    match r {
        Err(p) => acc.fail(idx, case(None), "a property list and its parse", p.describe(), format!("printing or parsing a property list with fix_words as {} panicked", ROUTES[route])),
        Ok((got, nwarn, text)) => {
            for (x, g) in vals.iter().zip(&got) {
                // an absent dimension reads as zero
                if g.unwrap_or(0) != *x {
                    acc.fail(idx, case(Some(*x)), format!("{x}"), format!("{g:?}; list: {}", vcore::clip(&text.replace('\n', " "), 200)), format!("the fix_word printed as {} does not come back through the PL reader", ROUTES[route]));
                    return;
                }
            }
            acc.class(&format!("{} round-trips{}", ROUTES[route], if nwarn > 0 { ", the reader warned" } else { "" }));
        }
    }
}

// ------------------------------------------------------------------------------------------------
// Part 2: to_scaled
// ------------------------------------------------------------------------------------------------

fn check_scaled(idx: u64, x: i32, ds: i32, acc: &mut Acc) {
    acc.eval();
    let want = match fix::store_scaled(x, ds) {
        Ok(w) => w,
        Err(_) => {
            acc.skipped += 1; // TeX aborts: outside the property's "legal ranges"
            return;
        }
    };
    if x & 0xffffff != 0 {
        acc.nontrivial();
    }
    if x < 0 {
        acc.count("scaled_negative_value");
    }
    if ds >= 128 << 20 {
        acc.count("scaled_z_normalised");
    }
    let case = || json!({"kind": "scaled", "x": x, "design_size": ds});
    match catch(|| FixWord(x).to_scaled(FixWord(ds)).0) {
        Err(p) => acc.fail(idx, case(), format!("{want}"), p.describe(), "to_scaled panicked inside TeX's legal ranges"),
        Ok(got) => {
            if got as i64 != want {
                acc.fail(idx, case(), format!("{want} sp"), format!("{got} sp"), "to_scaled differs from TeX §571-572 store_scaled");
            }
        }
    }
}

/// Legal values (first byte 0 or 255) with every other byte on a boundary.
fn value_lattice() -> Vec<i32> {
    let bs = [0u8, 1, 2, 15, 16, 127, 128, 129, 254, 255];
    let mut v = vec![];
    for a in [0u8, 255] {
        for b in bs {
            for c in bs {
                for d in bs {
                    v.push(i32::from_be_bytes([a, b, c, d]));
                }
            }
        }
    }
    for x in [349526, 174763, 116509, 451470, 1048579, -291272, -334963, 81557] {
        v.push(x); // cmr10
    }
    v.sort();
    v.dedup();
    v
}

/// Design sizes in [1pt, 2048pt): every multiple of 1/16 pt, +-{0,1,15,16,17} around every power of two,
/// and the sizes named in the design.
fn design_lattice() -> Vec<i32> {
    let mut v: Vec<i64> = vec![];
    let mut m = 1i64 << 20;
    while m < 1 << 31 {
        v.push(m);
        m += 1 << 16;
    }
    for k in 20..=31 {
        for d in [-17i64, -16, -15, -1, 0, 1, 15, 16, 17] {
            v.push((1i64 << k) + d);
        }
    }
    for (int, frac_millionths) in [(1i64, 0i64), (5, 0), (10, 0), (12, 0), (17, 280000), (127, 990000), (2047, 990000), (2047, 999999)] {
        v.push((int << 20) + (frac_millionths << 20) / 1_000_000);
    }
    let mut v: Vec<i32> = v.into_iter().filter(|x| *x >= 1 << 20 && *x < 1 << 31).map(|x| x as i32).collect();
    v.sort();
    v.dedup();
    v
}

fn sweep_design_sizes(quick: bool) -> Vec<i32> {
    let ten = 10 << 20;
    let s1728 = (17 << 20) + ((28i64 << 20) / 100) as i32;
    let big = i32::MAX - 5; // 2047.99999 pt: z needs four halvings
    let mut v = vec![(1 << 20) + 16, ten, s1728, (128 << 20) - 16, (255 << 20) + 999, big];
    if !quick {
        v.extend([1 << 20, 5 << 20, 12 << 20, (127 << 20) + 1038090, 128 << 20, (1000 << 20) + 123456]);
        // one size just below, at and above every power of two, sizes with every low nibble pattern, odd z
        v.extend([(10 << 20) + 15, (128 << 20) + 32, 256 << 20, (300 << 20) + 7777, 512 << 20, 1024 << 20, (2047 << 20) + 1038090, i32::MAX]);
        for k in 20..=30 {
            for d in [-16i32, 0, 16, 48] {
                v.push((1i32 << k) + d);
            }
            v.push((1i32 << k) + (1 << (k - 1)) + 16 * 12345 % (1 << (k - 2)));
            v.push((1i32 << k) + 0x3_5a70 % (1 << k));
        }
        let mut m: i64 = (1 << 20) + 0x1_2340;
        while m < 1 << 31 {
            v.push(m as i32);
            m = m * 21 / 20 + 16;
        }
    }
    v.retain(|x| *x >= 1 << 20);
    v.sort();
    v.dedup();
    v
}

// ------------------------------------------------------------------------------------------------
// Part 3: compress
// ------------------------------------------------------------------------------------------------

fn check_compress(idx: u64, values: &[i64], max: u8, acc: &mut Acc, case: &dyn Fn() -> Value) {
    acc.eval();
    let sorted = fix::sorted_distinct(values);
    let n = sorted.len();
    let m = max as usize;
    let best = fix::min_tolerance(&sorted, m).expect("limit >= 1");
    // model-side facts
    if n > m {
        acc.nontrivial();
        acc.count("compression_needed");
        if best & 1 == 1 {
            acc.count("tolerance_odd");
        }
        let pl = fix::pltotf_compress(&sorted, m);
        let gr = fix::greedy_compress(&sorted, m).unwrap();
        if pl.tolerance != best {
            acc.fail(idx, case(), format!("{best}"), format!("{}", pl.tolerance), "MODEL: PLtoTF §76 shorten and the brute-force minimal tolerance disagree");
            return;
        }
        if pl.reps != gr.reps {
            acc.count("pltotf_excess_rule_matters");
        }
    }
    if values.len() != n {
        acc.count("duplicates_in_input");
    }
    let fw: Vec<FixWord> = values.iter().map(|v| FixWord(*v as i32)).collect();
    let (table, map) = match catch(|| tfm::compress(&fw, max)) {
        Ok(r) => r,
        Err(p) => {
            acc.fail(idx, case(), "a table and an index map", p.describe(), "compress panicked");
            return;
        }
    };
    let tdesc = || format!("table={:?} map={:?}", table.iter().map(|f| f.0).collect::<Vec<_>>(), { let mut m: Vec<(i32, u8)> = map.iter().map(|(k, v)| (k.0, v.get())).collect(); m.sort(); m });
    // `table[map[v]]` is the representative of v (the documented reading of the result). That slot 0 holds a
    // zero is the caller's TFM layout, not part of the property: recorded only.
    if table.first() != Some(&FixWord::ZERO) {
        acc.class("table[0] is not the reserved zero");
    }
    let classes = table.len().saturating_sub(1);
    if classes > m {
        acc.fail(idx, case(), format!("at most {m} classes"), tdesc(), "more classes than allowed");
        return;
    }
    if map.len() != n {
        acc.class("the index map has keys that are not input values");
    }
    let mut lo = vec![i64::MAX; classes + 1];
    let mut hi = vec![i64::MIN; classes + 1];
    for v in &sorted {
        let Some(k) = map.get(&FixWord(*v as i32)).map(|k| k.get() as usize) else {
            acc.fail(idx, case(), format!("an index for {v}"), tdesc(), "input value missing from the index map");
            return;
        };
        if k > classes {
            acc.fail(idx, case(), format!("index <= {classes}"), tdesc(), "index outside the table");
            return;
        }
        lo[k] = lo[k].min(*v);
        hi[k] = hi[k].max(*v);
        // every value within half the minimal tolerance of its representative; an odd tolerance has no
        // integer midpoint, so the achievable bound is (best+1)/2
        let rep = table[k].0 as i64;
        if 2 * (*v - rep).abs() > best + (best & 1) {
            acc.fail(idx, case(), format!("|{v} - rep| <= {best}/2 (minimal tolerance {best})"), format!("rep={rep}; {}", tdesc()), "a value is farther than half the minimal tolerance from its class representative");
            return;
        }
    }
    let spread = (1..=classes).filter(|k| lo[*k] <= hi[*k]).map(|k| hi[k] - lo[k]).max().unwrap_or(0);
    if spread != best {
        acc.fail(idx, case(), format!("tolerance {best} (smallest d whose greedy cover has <= {m} classes)"), format!("largest class spread {spread}; {}", tdesc()), "the tolerance used is not the smallest possible");
        return;
    }
    // how does the table relate to PLtoTF's own table? (recorded, not judged)
    if n <= m {
        let want: Vec<i64> = std::iter::once(0).chain(sorted.iter().copied()).collect();
        // tolerance 0 already forced every value to equal its representative; the order of the table is free
        if table.iter().map(|f| f.0 as i64).collect::<Vec<_>>() != want {
            acc.class("no compression needed, table is not [0] + the sorted distinct input");
        } else {
            acc.class("no compression needed");
        }
    } else {
        let got: Vec<i64> = table.iter().skip(1).map(|f| f.0 as i64).collect();
        let got_index: Vec<usize> = sorted.iter().map(|v| map[&FixWord(*v as i32)].get() as usize).collect();
        let pl = fix::pltotf_compress(&sorted, m);
        let gr = fix::greedy_compress(&sorted, m).unwrap();
        let midpoints = |reps: &[i64]| if got == reps { "PLtoTF's midpoints l+(u-l) div 2" } else { "midpoint (l+u)/2 truncated toward zero where PLtoTF has l+(u-l) div 2" };
        let rel = if got_index == pl.index {
            format!("PLtoTF's partition, {}", midpoints(&pl.reps))
        } else if got_index == gr.index {
            format!("full greedy cover where PLtoTF stops merging once `excess` values are removed, {}", midpoints(&gr.reps))
        } else {
            "another minimal-tolerance partition".to_string()
        };
        acc.class(&format!("compressed to {} classes: {rel}", if classes == m { "exactly `limit`" } else { "fewer than `limit`" }));
    }
}

const EXTREME_LATTICE: [i64; 14] = [-(1 << 31), -(1 << 31) + 1, -(2047 << 20), -(1024 << 20), -3, -2, 0, 1, 2, 5, (1024 << 20) + 1, 2047 << 20, (1 << 31) - 2, (1 << 31) - 1];
const LAT7: [i64; 7] = [0, 1, 2, 5, 6, 20, -3];
const TRANSFORMS: [(i64, i64); 5] = [(1, 0), (1, -7), (3, -20), (65537, -(1 << 23)), (2, 1)];

fn subset_lattices() -> [Vec<i64>; 2] {
    // contiguous integers (every composition of gaps) and a spread-out lattice (Fibonacci gaps)
    [(0..24).collect(), vec![0, 1, 2, 3, 5, 8, 13, 21, 34, 55, 89, 144, 233, 377, 610, 987, 1597, 2584, 4181, 6765, 10946, 17711, 28657, 46368]]
}

/// Deterministic families of 256..=300 values (|v| < 16.0).
fn large_family(shape: u64, n: u64) -> Vec<i64> {
    (0..n as i64)
        .map(|i| match shape {
            0 => i * 1000,                                  // arithmetic progression
            1 => i * i,                                     // growing gaps
            2 => (i / 10) * 10_000 + (i % 10),              // clusters of ten
            3 => (i * 7919) % 1009 - 500,                   // scattered, duplicates collapse
            4 => -(1 << 24) + i * 111_111,                  // from the negative end of the legal range
            5 => if i % 2 == 0 { i } else { (1 << 24) - 1 - i }, // two far clusters
            6 => (i * i * i) % 100_003 - 50_000,
            7 => 1 << (i % 24),                             // powers of two, many duplicates
            8 => i * (i % 3 + 1),                           // irregular small gaps
            _ => (i - 150) * (i - 150) * 3 - (i % 5),       // parabola: each value met twice, minus jitter
        })
        .collect()
}
const SHAPES: u64 = 10;

// ------------------------------------------------------------------------------------------------
// Part 3b: the table limits at the call sites (PL -> TFM conversion)
// ------------------------------------------------------------------------------------------------

const TABLE_KINDS: [(&str, usize, [usize; 3]); 4] = [("CHARWD", 255, [255, 256, 257]), ("CHARHT", 15, [15, 16, 17]), ("CHARDP", 15, [15, 16, 17]), ("CHARIC", 63, [63, 64, 65])];

/// N distinct non-zero values of dimension `kind` in a property list, through from_pl_source_code -> tfm::File -> serialize -> deserialize.
fn check_table_limit(idx: u64, kind: usize, n: usize, shape: u64, acc: &mut Acc) {
    acc.eval();
    acc.nontrivial();
    let (name, limit, _) = TABLE_KINDS[kind];
    if kind == 3 && n >= 64 {
        acc.count("pl_with_64_or_more_distinct_italic_corrections");
    }
    if n > limit {
        acc.count("pl_table_needs_compression");
    }
    let value = |i: usize| -> i64 {
        let k = i as i64 + 1;
        match shape {
            0 => k * 60_001,
            1 => k * k * 250,
            _ => if i % 2 == 0 { k * 60_001 } else { -k * 60_001 },
        }
    };
    // characters 0..min(n,256); the 257th value is a second CHARACTER entry for character 0 (PLtoTF keeps the overwritten value in the table)
    let mut text = String::from("(DESIGNSIZE R 10.0)\n");
    let mut per_char: Vec<i64> = vec![];
    for i in 0..n {
        let c = i % 256;
        let v = value(i);
        if i < 256 {
            per_char.push(v);
        } else {
            per_char[c] = v;
        }
        text.push_str(&format!("(CHARACTER D {c} {}({name} R {}))\n", if kind == 0 { "" } else { "(CHARWD R 1.0) " }, fix::print_fix(v as i32)));
    }
    let all: Vec<i64> = (0..n).map(value).collect();
    let sorted = fix::sorted_distinct(&all);
    let best = fix::min_tolerance(&sorted, limit).expect("limit >= 1");
    let case = || json!({"kind": "table-limit", "dimension": name, "n": n, "shape": shape});
    let r = catch(|| {
        let (pl, _w) = tfm::pl::File::from_pl_source_code(&text);
        let file: tfm::File = pl.into();
        let bytes = file.serialize();
        let (back, _dw) = tfm::File::deserialize(&bytes);
        back.map(|f| {
            let table: Vec<i32> = match kind {
                0 => &f.widths,
                1 => &f.heights,
                2 => &f.depths,
                _ => &f.italic_corrections,
            }
            .iter()
            .map(|w| w.0)
            .collect();
            let idx: Vec<Option<usize>> = (0..per_char.len())
                .map(|c| {
                    f.char_dimens.get(&Char(c as u8)).map(|d| match kind {
                        0 => d.width_index.valid().map(|i| i.get() as usize).unwrap_or(0),
                        1 => d.height_index as usize,
                        2 => d.depth_index as usize,
                        _ => d.italic_index as usize,
                    })
                })
                .collect();
            (table, idx)
        })
        .map_err(|e| format!("{e:?}"))
    });
    match r {
        Err(p) => acc.fail(idx, case(), "a TFM file", p.describe(), "PL -> TFM -> bytes -> TFM panicked"),
        Ok(Err(e)) => acc.fail(idx, case(), "a TFM file that can be read back", e, "the TFM file produced from the property list cannot be read back"),
        Ok(Ok((table, index))) => {
            if table.len() > limit + 1 {
                acc.fail(idx, case(), format!("at most {} words ({limit} classes and the zero word)", limit + 1), format!("{} words", table.len()), format!("the {name} table exceeds the TFM limit"));
                return;
            }
            for (c, v) in per_char.iter().enumerate() {
                let Some(k) = index[c] else {
                    acc.fail(idx, case(), format!("character {c}"), "missing", "a character of the property list is missing from the TFM file");
                    return;
                };
                if k >= table.len() {
                    acc.fail(idx, case(), format!("index < {}", table.len()), format!("index {k} for character {c}"), format!("{name} index outside the table"));
                    return;
                }
                let rep = table[k] as i64;
                if 2 * (v - rep).abs() > best + (best & 1) {
                    acc.fail(idx, case(), format!("|{v} - value read back| <= {best}/2 (minimal tolerance for {limit} classes)"), format!("character {c}: index {k}, value {rep}"), format!("a {name} read back from the TFM file is farther than half the minimal tolerance from the value in the property list"));
                    return;
                }
            }
            acc.class(&format!("{name}: {n} values -> {} table words", table.len()));
        }
    }
}

// ------------------------------------------------------------------------------------------------
// Part 4: next larger
// ------------------------------------------------------------------------------------------------

const CODES: [u8; 8] = [0, 3, 65, 127, 128, 200, 254, 255];

fn check_next_larger(idx: u64, n: usize, f: &[u64], mask: u64, drop: bool, reversed: bool, acc: &mut Acc) {
    acc.eval();
    let masked = n.min(4);
    let exists_i = |i: usize| i >= masked || mask >> i & 1 == 1;
    // domain: links leave existing characters only
    if (0..n).any(|i| f[i] != 0 && !exists_i(i)) {
        acc.skipped += 1;
        return;
    }
    let exists = |c: u8| CODES[..n].iter().position(|x| *x == c).map(exists_i).unwrap_or(true);
    let mut link: [Option<u8>; 256] = [None; 256];
    let mut edges: Vec<(Char, Char)> = vec![];
    for i in 0..n {
        if f[i] != 0 {
            let to = CODES[f[i] as usize - 1];
            link[CODES[i] as usize] = Some(to);
            edges.push((Char(CODES[i]), Char(to)));
        }
    }
    if reversed {
        edges.reverse();
    }
    let (g, mut mw) = fix::next_larger(&link, &exists, drop);
    // model-side facts
    let cycles = mw.iter().filter(|w| matches!(w, NlWarning::Cycle { .. })).count();
    let nonex = mw.iter().filter(|w| matches!(w, NlWarning::NonExistent { .. })).count();
    if cycles >= 1 {
        acc.count("nl_cycle");
    }
    if cycles >= 2 {
        acc.count("nl_two_cycles");
    }
    if nonex >= 1 {
        acc.count("nl_nonexistent_target");
    }
    {
        // a character outside every cycle whose links lead into a cycle
        let mut on_cycle = [false; 256];
        for w in &mw {
            if let NlWarning::Cycle { original, next_larger } = w {
                on_cycle[*original as usize] = true;
                let mut r = *next_larger;
                while r != *original {
                    on_cycle[r as usize] = true;
                    r = link[r as usize].expect("a cycle is closed");
                }
            }
        }
        if (0..n).any(|i| !on_cycle[CODES[i] as usize] && fix::chain(&g, CODES[i]).iter().any(|c| on_cycle[*c as usize])) {
            acc.count("nl_path_into_cut_cycle");
        }
    }
    let probe: Vec<u8> = CODES[..n].iter().copied().chain([201u8]).collect();
    let want: Vec<Vec<u8>> = probe.iter().map(|c| fix::chain(&g, *c)).collect();
    if want.iter().any(|c| c.len() >= 2) || !mw.is_empty() {
        acc.nontrivial();
    }
    let case = || json!({"kind": "nextlarger", "n": n, "f": f, "mask": mask, "drop": drop, "reversed": reversed,
        "edges": edges.iter().map(|(a, b)| format!("{}->{}", a.0, b.0)).collect::<Vec<_>>(), "exists": CODES[..n].iter().map(|c| exists(*c)).collect::<Vec<_>>()});
    let r = catch(|| {
        let (p, w) = NextLargerProgram::new(edges.clone().into_iter(), |c| exists(c.0), drop);
        let chains: Vec<Vec<u8>> = probe.iter().map(|c| p.get(Char(*c)).take(300).map(|c| c.0).collect()).collect();
        (chains, w)
    });
    let (chains, warnings) = match r {
        Ok(v) => v,
        Err(p) => {
            acc.fail(idx, case(), "a program", p.describe(), "NextLargerProgram::new/get panicked");
            return;
        }
    };
    for ((c, want), got) in probe.iter().zip(&want).zip(&chains) {
        if got.len() > 256 {
            acc.fail(idx, case(), "a finite chain", format!("chain of {c} has more than 256 elements"), "next-larger chain is not finite");
            return;
        }
        if want != got {
            acc.fail(idx, case(), format!("chain({c}) = {want:?}"), format!("{got:?}"), "next-larger chain differs from TFtoPL §84 (links followed, cycle cut at its largest character)");
            return;
        }
    }
    let mut gw: Vec<NlWarning> = warnings
        .iter()
        .map(|w| match w {
            NextLargerProgramWarning::NonExistentCharacter { original, next_larger } => NlWarning::NonExistent { original: original.0, next_larger: next_larger.0 },
            NextLargerProgramWarning::InfiniteLoop { original, next_larger } => NlWarning::Cycle { original: original.0, next_larger: next_larger.0 },
        })
        .collect();
    gw.sort();
    mw.sort();
    // the statement is about the chains; which warnings accompany them is recorded, not judged
    if gw != mw {
        acc.class("chains as TFtoPL §84, warnings differ from TFtoPL's (as multisets)");
        return;
    }
    acc.class(&format!("cycles={cycles} nonexistent={nonex} longest chain={}", want.iter().map(|c| c.len()).max().unwrap_or(0)));
}

/// Deterministic graphs on all 256 characters: link[c] for shape k.
fn large_graph(shape: u64) -> [Option<u8>; 256] {
    let mut g = [None; 256];
    for c in 0..256usize {
        g[c] = match shape {
            0 => if c < 255 { Some((c + 1) as u8) } else { None },             // one chain of 256
            1 => Some(((c + 1) % 256) as u8),                                  // one cycle of 256
            2 => if c > 0 { Some((c - 1) as u8) } else { None },               // descending chain
            3 => Some(((c + 255) % 256) as u8),                                // descending cycle
            4 => if c != 128 { Some(128) } else { None },                      // star: 255 characters share one next-larger
            5 => if c > 0 { Some((c / 2) as u8) } else { None },               // binary tree towards 0
            6 => if c < 255 { Some((255 - (255 - c) / 2) as u8) } else { None }, // binary tree towards 255
            7 => Some(((c * 5 + 1) % 256) as u8),                              // one permutation cycle of length 256
            8 => Some(((c * 3) % 256) as u8),                                  // many cycles with tails
            9 => Some(((c * c + 1) % 256) as u8),                              // rho-shaped components
            10 => if c % 2 == 0 { Some((c + 1) as u8) } else { None },         // 128 chains of length 1
            11 => if c < 254 { Some((c + 2) as u8) } else { None },            // two interleaved chains of 128
            12 => if c < 128 { Some((c + 128) as u8) } else { Some((c - 128 + 1).min(127) as u8) }, // crossing the 7-bit boundary both ways
            13 => if c == 255 { Some(255) } else if c >= 250 { Some((c + 1) as u8) } else { None }, // short chain into a self-loop at 255
            14 => if c == 0 { Some(0) } else if c <= 5 { Some((c - 1) as u8) } else { None },       // short chain into a self-loop at 0
            15 => if c % 3 == 0 { Some(((c + 3) % 256) as u8) } else { Some((c - c % 3) as u8) },   // a cycle of 86 with two leaves on every member
            // every character, the hub included, names the same hub: in-degree 256 (255 others + the self-loop)
            16 => Some(0),
            17 => Some(127),
            18 => Some(128),
            19 => Some(255),
            // two hubs with 128 incoming links each, linked to each other
            20 => if c == 0 { Some(255) } else if c == 255 { Some(0) } else if c % 2 == 0 { Some(0) } else { Some(255) },
            21 => if c == 127 { Some(128) } else if c == 128 { Some(127) } else if c < 127 || c == 255 { Some(127) } else { Some(128) },
            // hub 200 with in-degree exactly 127, 128, 129, 254, 255 (the first k other characters) and 256 (all, with the self-loop)
            22..=27 => {
                let k = [127usize, 128, 129, 254, 255, 256][(shape - 22) as usize];
                let rank = if c < 200 { c } else { c - 1 }; // position among the characters other than 200
                if c == 200 { if k == 256 { Some(200) } else { None } } else if rank < k.min(255) { Some(200) } else { None }
            }
            // hub with a self-loop and in-degree 255 / 2 (the self-loop plus 254 / 1 others)
            28 => if c == 1 { None } else { Some(0) },
            _ => if c <= 1 { Some(0) } else { None },
        };
    }
    g
}
const LARGE_GRAPHS: u64 = 30;

fn check_next_larger_large(idx: u64, shape: u64, mask: u64, drop: bool, reversed: bool, acc: &mut Acc) {
    acc.eval();
    acc.nontrivial();
    acc.count("nl_256_characters");
    let mut link = large_graph(shape);
    // existence masks: all exist / every 4th character missing / the upper half missing; links out of missing characters are removed (domain)
    let exists = |c: u8| match mask {
        0 => true,
        1 => c % 4 != 3,
        _ => c < 128,
    };
    for c in 0..=255u8 {
        if !exists(c) {
            link[c as usize] = None;
        }
    }
    let mut edges: Vec<(Char, Char)> = (0..=255u8).filter_map(|c| link[c as usize].map(|n| (Char(c), Char(n)))).collect();
    if reversed {
        edges.reverse();
    }
    let mut indeg = [0usize; 256];
    for n in link.iter().flatten() {
        indeg[*n as usize] += 1;
    }
    match indeg.iter().max() {
        Some(256) => acc.count("nl_character_with_256_incoming_links"),
        Some(255) => acc.count("nl_character_with_255_incoming_links"),
        Some(128) => acc.count("nl_character_with_128_incoming_links"),
        _ => {}
    }
    let (g, _mw) = fix::next_larger(&link, &exists, drop);
    let want: Vec<Vec<u8>> = (0..=255u8).map(|c| fix::chain(&g, c)).collect();
    if want.iter().any(|c| c.len() >= 200) {
        acc.count("nl_chain_of_200_or_more");
    }
    let case = || json!({"kind": "nextlarger-large", "shape": shape, "mask": mask, "drop": drop, "reversed": reversed});
    let r = catch(|| {
        let (p, _w) = NextLargerProgram::new(edges.clone().into_iter(), |c| exists(c.0), drop);
        (0..=255u8).map(|c| p.get(Char(c)).take(300).map(|c| c.0).collect::<Vec<u8>>()).collect::<Vec<_>>()
    });
    match r {
        Err(p) => acc.fail(idx, case(), "a program", p.describe(), "NextLargerProgram::new/get panicked"),
        Ok(chains) => {
            for (c, (want, got)) in want.iter().zip(&chains).enumerate() {
                if got.len() > 256 {
                    acc.fail(idx, case(), "a finite chain", format!("chain of {c} has more than 256 elements"), "next-larger chain is not finite");
                    return;
                }
                if want != got {
                    acc.fail(idx, case(), format!("chain({c}) = {want:?}"), format!("{got:?}"), "next-larger chain differs from TFtoPL §84 (links followed, cycle cut at its largest character)");
                    return;
                }
            }
            acc.class(&format!("256 characters: longest chain={}", want.iter().map(|c| c.len()).max().unwrap_or(0)));
        }
    }
}

fn nl_space(n: usize) -> Vec<u64> {
    let mut r = vec![(n + 1) as u64; n];
    r.push(1 << n.min(4)); // mask
    r.push(2); // drop
    r.push(2); // edge order
    r
}

// ------------------------------------------------------------------------------------------------
// model self-validation
// ------------------------------------------------------------------------------------------------

fn self_validate(ctx: &mut Ctx) {
    // (1) fix_word text: values and texts of cmr10.tfm / cmr10.plst (TFtoPL output), crates/tfm/corpus/computer-modern
    for (w, t) in [(0, "0.0"), (349526, "0.333334"), (174763, "0.166667"), (116509, "0.111112"), (451470, "0.430555"), (1048579, "1.000003"), (-291272, "-0.277779"), (-334963, "-0.319446"), (81557, "0.077779"), (10485760, "10.0")] {
        if fix::print_fix(w) != t {
            ctx.machinery_error(format!("model self-validation: print_fix({w}) = {} but TFtoPL printed {t}", fix::print_fix(w)));
        }
        if fix::parse_fix(t) != Ok(w as i64) {
            ctx.machinery_error(format!("model self-validation: parse_fix({t}) = {:?}, expected {w}", fix::parse_fix(t)));
        }
    }
    // pl/ast.rs test `character_..`: "R 10.55" -> FixWord(1055 * ONE / 100 + 1); "D -11.5", "R 18"
    for (t, w) in [("10.55", 1055 * (1i64 << 20) / 100 + 1), (" -11.5", -23 * (1i64 << 19)), ("18", 18 << 20), ("1.5", 3 << 19), ("-0.25", -(1 << 18))] {
        if fix::parse_fix(t) != Ok(w) {
            ctx.machinery_error(format!("model self-validation: parse_fix({t:?}) = {:?}, expected {w}", fix::parse_fix(t)));
        }
    }
    // whole corpus: every real that Knuth's TFtoPL printed parses (model) to a word of the TFM file and prints (model) back to the same text
    let repo = std::env::var("VERIF_REPO").unwrap_or_else(|_| "/repo".into());
    let mut reals = 0;
    for name in ["cmr10", "cmex10", "cmsy7", "cmss8", "cminch"] {
        let dir = format!("{repo}/crates/tfm/corpus/computer-modern");
        let (Ok(tfm), Ok(pl)) = (std::fs::read(format!("{dir}/{name}.tfm")), std::fs::read_to_string(format!("{dir}/{name}.plst"))) else {
            ctx.machinery_error(format!("model self-validation: cannot read {dir}/{name}.tfm/.plst"));
            continue;
        };
        let h = |i: usize| u16::from_be_bytes([tfm[2 * i], tfm[2 * i + 1]]) as usize;
        let (lh, bc, ec) = (h(1), h(2), h(3));
        let tables_start = 24 + 4 * lh + 4 * (ec + 1 - bc);
        let mut words: std::collections::BTreeSet<i64> = Default::default();
        for k in (tables_start..tfm.len()).step_by(4) {
            words.insert(i32::from_be_bytes([tfm[k], tfm[k + 1], tfm[k + 2], tfm[k + 3]]) as i64);
        }
        let ds = i32::from_be_bytes([tfm[28], tfm[29], tfm[30], tfm[31]]);
        words.insert(ds as i64);
        let mut rest = pl.as_str();
        while let Some(i) = rest.find(" R ") {
            rest = &rest[i + 3..];
            let end = rest.find(')').unwrap_or(rest.len());
            let t = rest[..end].trim();
            reals += 1;
            match fix::parse_fix(t) {
                Ok(v) if words.contains(&v) && fix::print_fix(v as i32) == t => {}
                other => ctx.machinery_error(format!("model self-validation: {name}.plst real {t:?}: model parse {other:?}, model print {:?}, word in {name}.tfm: {}", other.map(|v| fix::print_fix(v as i32)), other.map(|v| words.contains(&v)).unwrap_or(false))),
            }
        }
        // (2) store_scaled: cmr10 at 10pt, the values TeX reports (The TeXbook p. 433; boxworks-text tests `glue(3.33333pt, 1.66666pt, 1.11111pt)`)
        if name == "cmr10" {
            for (w, pt) in [(349526, "3.33333"), (174763, "1.66666"), (116509, "1.11111"), (451470, "4.30554"), (1048579, "10.00002"), (0, "0.0")] {
                let got = fix::store_scaled(w, ds).map(reftex::arith::print_scaled);
                if got.as_deref() != Ok(pt) {
                    ctx.machinery_error(format!("model self-validation: store_scaled({w}, 10pt) = {got:?}, TeX says {pt}pt"));
                }
            }
        }
    }
    if reals < 1500 {
        ctx.machinery_error(format!("model self-validation: only {reals} reals found in the corpus property lists"));
    }
    // lib.rs `to_scaled_test`
    if fix::store_scaled(1 << 20, 1 << 20) != Ok(1 << 16) || fix::store_scaled(0, 1 << 20) != Ok(0) {
        ctx.machinery_error("model self-validation: store_scaled(1.0, 1pt) != 1pt");
    }
    // (3) compress: the nine cases of lib.rs `compress_tests!` (values, limit, table without the leading zero, indices)
    let one = 1i64 << 20;
    let cases: Vec<(Vec<i64>, usize, Vec<i64>, Vec<usize>)> = vec![
        (vec![], 1, vec![], vec![]),                                                        // no_op_0
        (vec![one * 2, one], 2, vec![one, one * 2], vec![2, 1]),                            // no_op_2
        (vec![one, one], 1, vec![one], vec![1, 1]),                                         // just_deduplication
        (vec![one, one * 2], 1, vec![one * 3 / 2], vec![1, 1]),                             // simple_compression_case
        (vec![one, one * 2, one * 200, one * 201], 2, vec![one * 3 / 2, one * 401 / 2], vec![1, 1, 2, 2]), // simple_compression_case_2
        (vec![1, 3], 1, vec![2], vec![1, 1]),                                               // lower_upper_close_edge_case_1
        (vec![0, 2], 1, vec![1], vec![1, 1]),                                               // .._2
        (vec![1, 4], 1, vec![2], vec![1, 1]),                                               // .._3
        (vec![1, 2], 1, vec![1], vec![1, 1]),                                               // .._4
    ];
    for (values, m, want, want_idx) in cases {
        let s = fix::sorted_distinct(&values);
        let c = fix::pltotf_compress(&s, m);
        let idx: Vec<usize> = values.iter().map(|v| c.index[s.iter().position(|x| x == v).unwrap()]).collect();
        if c.reps != want || idx != want_idx || Some(c.tolerance) != fix::min_tolerance(&s, m) {
            ctx.machinery_error(format!("model self-validation: compress {values:?} limit {m}: model {c:?}, repository test expects {want:?} {want_idx:?}"));
        }
    }
    // shorten (PLtoTF's search) against the brute force on every subset of 0..10 and two lattices
    for lat in [(0..10).collect::<Vec<i64>>(), vec![0, 1, 3, 7, 8, 20, 21, 22, 50, 90]] {
        for s in 1u32..1 << lat.len() {
            let set: Vec<i64> = (0..lat.len()).filter(|i| s >> i & 1 == 1).map(|i| lat[i]).collect();
            for m in 1..set.len() {
                if Some(fix::shorten(&set, m)) != fix::min_tolerance(&set, m) {
                    ctx.machinery_error(format!("model self-validation: shorten({set:?},{m}) = {} but brute force {:?}", fix::shorten(&set, m), fix::min_tolerance(&set, m)));
                    return;
                }
            }
        }
    }
    // (4) next larger: the four cases of lib.rs `next_larger_tests!`
    type NlCase = (Vec<(u8, u8)>, Vec<(u8, Vec<u8>)>, Vec<NlWarning>);
    let (a, b, c, x, y, z) = (b'A', b'B', b'C', b'X', b'Y', b'Z');
    let mut nl: Vec<NlCase> = vec![
        (vec![(a, a)], vec![(a, vec![])], vec![NlWarning::Cycle { original: a, next_larger: a }]), // same_node_loop
        (
            vec![(a, b), (b, c), (c, b), (x, y), (y, z), (z, x)],
            vec![(a, vec![b, c]), (b, vec![c]), (c, vec![]), (x, vec![y, z]), (y, vec![z]), (z, vec![])],
            vec![NlWarning::Cycle { original: c, next_larger: b }, NlWarning::Cycle { original: z, next_larger: x }],
        ), // two_loops
        (vec![(a, b), (b, c), (c, b)], vec![(a, vec![b, c]), (b, vec![c]), (c, vec![])], vec![NlWarning::Cycle { original: c, next_larger: b }]), // path_leading_to_loop
    ];
    nl.push(((0..=255u8).map(|u| (u, u.wrapping_add(1))).collect(), (0..=255u8).map(|u| (u, (u as u16 + 1..=255).map(|w| w as u8).collect())).collect(), vec![NlWarning::Cycle { original: 255, next_larger: 0 }])); // big_infinite_loop
    // doc examples of NextLargerProgram: X->Y, Y->X broken at Y; X->Y with Y nonexistent, kept (PLtoTF) or dropped (TFtoPL)
    nl.push((vec![(x, y), (y, x)], vec![(x, vec![y]), (y, vec![])], vec![NlWarning::Cycle { original: y, next_larger: x }]));
    for (edges, seqs, warnings) in nl {
        let mut link = [None; 256];
        for (s, l) in &edges {
            link[*s as usize] = Some(*l);
        }
        for (g, w) in [fix::next_larger(&link, &|_| true, true), fix::next_larger_by_definition(&link, &|_| true, true)] {
            let mut w = w;
            w.sort();
            if w != warnings || seqs.iter().any(|(s, want)| &fix::chain(&g, *s) != want) {
                ctx.machinery_error(format!("model self-validation: next larger {:?}: model warnings {w:?}, repository test expects {warnings:?}", &edges[..edges.len().min(6)]));
            }
        }
    }
    {
        let mut link = [None; 256];
        link[x as usize] = Some(y);
        let ex = |c: u8| c != y;
        let (g1, w1) = fix::next_larger(&link, &ex, false);
        let (g2, w2) = fix::next_larger(&link, &ex, true);
        let w = vec![NlWarning::NonExistent { original: x, next_larger: y }];
        if w1 != w || w2 != w || fix::chain(&g1, x) != vec![y] || !fix::chain(&g2, x).is_empty() {
            ctx.machinery_error("model self-validation: next larger doc example with a nonexistent character");
        }
    }
    // the walk of TFtoPL §84 against the definition "cut the link out of the largest character of every cycle", all graphs on 5 nodes x masks
    let radices = [6u64, 6, 6, 6, 6, 16];
    for i in 0..vcore::product(&radices) {
        let d = vcore::digits(i, &radices);
        let exists_i = |k: usize| k >= 4 || d[5] >> k & 1 == 1;
        if (0..5).any(|k| d[k] != 0 && !exists_i(k)) {
            continue;
        }
        let mut link = [None; 256];
        for k in 0..5 {
            if d[k] != 0 {
                link[CODES[k] as usize] = Some(CODES[d[k] as usize - 1]);
            }
        }
        let ex = |c: u8| CODES[..5].iter().position(|x| *x == c).map(exists_i).unwrap_or(true);
        for drop in [true, false] {
            let (g1, mut w1) = fix::next_larger(&link, &ex, drop);
            let (g2, mut w2) = fix::next_larger_by_definition(&link, &ex, drop);
            w1.sort();
            w2.sort();
            if g1 != g2 || w1 != w2 {
                ctx.machinery_error(format!("model self-validation: TFtoPL §84 walk and the cycle definition disagree on graph {d:?} drop={drop}"));
                return;
            }
        }
    }
}

// ------------------------------------------------------------------------------------------------
// main
// ------------------------------------------------------------------------------------------------

fn main() {
    let mut ctx = Ctx::new("C17", Level::Exploration);
    ctx.assume("fix_word text: the exact digits (TFtoPL §40-43 prints the shortest decimal) are recorded, not judged; judged are: the text denotes the value under PLtoTF §62-66, and the value comes back through a whole printed property list");
    ctx.assume("fix_word text: the pattern 0x80000000 prints as -2048.0, which the PL format cannot express (PLtoTF §62-64: 'Real constants must be less than 2048'); for it only 'no panic' is required and what the reader did is recorded as an outcome class");
    ctx.assume("to_scaled: TeX's legal ranges are design size in [1pt, 2048pt) (TeX §568 aborts otherwise) and a value whose first byte is 0 or 255 (§571 aborts otherwise); pairs outside are not enumerated; the font is loaded at its design size");
    ctx.assume("compress: values are fix_words other than -2048.0 (the lattices hold legal font dimensions |v| < 16.0; the family compress-extremes adds +-2047.999999, +-2047, +-1024), limits 1..=255; the oracle is computed in 64 bits; 'within half the tolerance' is read as 2|v-rep| <= d when d is even and d+1 when d is odd (no integer midpoint exists)");
    ctx.assume("compress: the property asks for the minimal tolerance, the class limit and the half-tolerance bound only. PLtoTF §78 additionally stops merging as soon as `excess` = n - limit values have been removed; whether the table equals PLtoTF's own is recorded as an outcome class, not judged");
    ctx.assume("next larger: links leave existing characters only (TFtoPL §84 never visits a nonexistent character and PLtoTF §111 creates the target without a tag); a link to a nonexistent character is dropped or kept as the `drop_non_existent_characters` argument says (TFtoPL §84 / PLtoTF §111); warnings are recorded as outcome classes, not judged");
    let tr = text_ranges(ctx.quick());
    let vl = value_lattice();
    let dl = design_lattice();
    let sds = sweep_design_sizes(ctx.quick());
    let lats = subset_lattices();

    if let Some((_fam, case)) = ctx.replay_case() {
        let mut acc = Acc::default();
        replay(&case, &mut acc);
        ctx.finish_replay(acc);
    }
    self_validate(&mut ctx);

    // ---- part 1
    {
        let n = total(&tr);
        let batches = n.div_ceil(BATCH);
        let bounds = if ctx.quick() {
            format!("{n} fix_word patterns: all |x| < 2^24 (= |value| < 16.0), +-4096 around +-2^k for k = 24..31, and the unit intervals at +-100, 999, 1000, 2046, 2047; {BATCH} per generated property list ({batches} lists)")
        } else {
            format!("all 2^32 fix_word patterns, {BATCH} per generated property list ({batches} lists)")
        };
        let tr = &tr;
        ctx.family_ranges("fixword-text", &bounds, batches, |r, acc| {
            let mut bits: Vec<u32> = Vec::with_capacity(BATCH as usize);
            for b in r {
                bits.clear();
                let lo = b * BATCH;
                let hi = (lo + BATCH).min(n);
                if tr.len() == 1 {
                    bits.extend((lo..hi).map(|k| (tr[0].0 + k) as u32));
                } else {
                    bits.extend((lo..hi).map(|k| nth(tr, k)));
                }
                check_fix_batch(b, &bits, acc);
                if b % 50_021 == 3 {
                    acc.sample(b, || json!({"fix_word": bits[0] as i32, "text": fix::print_fix(bits[0] as i32)}));
                }
            }
        });
    }
    // ---- part 1b: every other place of a property list that holds a fix_word
    {
        let lat = route_lattice();
        let lat = &lat;
        let nb = lat.len().div_ceil(ROUTE_BATCH) as u64;
        let designs: Vec<i32> = lat.iter().copied().filter(|x| *x >= 1 << 20).collect();
        let designs = &designs;
        ctx.family("fixword-routes", &format!("{} boundary fix_words (every byte in {{0,1,15,16,127,128,254,255}}) as CHARWD / CHARHT / CHARDP / CHARIC of 256 characters per list, as KRN of a LIGTABLE (256 per list), and the {} of them >= 1.0 as DESIGNSIZE", lat.len(), designs.len()), 5 * nb + designs.len() as u64, |i, acc| {
            if i < 5 * nb {
                let (route, b) = ((i / nb) as usize, (i % nb) as usize);
                let vals = &lat[b * ROUTE_BATCH..((b + 1) * ROUTE_BATCH).min(lat.len())];
                // neighbours: values that are legal font dimensions, so that a warning about a neighbour cannot blur the route under test
                let filler: Vec<i32> = lat.iter().copied().filter(|x| (*x as i64).abs() < 16 << 20).skip(b * 7).take(64).collect();
                check_route(i, route, vals, &filler, acc);
            } else {
                check_route(i, 5, &[designs[(i - 5 * nb) as usize]], &[0], acc);
            }
        });
    }
    // ---- part 2
    {
        let (vl, dl) = (&vl, &dl);
        let n = (vl.len() * dl.len()) as u64;
        ctx.family("to-scaled-lattice", &format!("{} legal values (first byte 0/255, other bytes in {{0,1,2,15,16,127,128,129,254,255}}, cmr10 words) x {} design sizes (every multiple of 1/16 pt in [1,2048), +-{{0,1,15,16,17}} around 2^k, 1/5/10/12/17.28/127.99/2047.99 pt)", vl.len(), dl.len()), n, |i, acc| {
            let x = vl[(i % vl.len() as u64) as usize];
            let ds = dl[(i / vl.len() as u64) as usize];
            check_scaled(i, x, ds, acc);
            if i % 3_000_017 == 11 {
                acc.sample(i, || json!({"x": x, "design_size": ds, "scaled": fix::store_scaled(x, ds).ok()}));
            }
        });
        let sds = &sds;
        let per = 1u64 << 25;
        ctx.family_ranges("to-scaled-sweep", &format!("all 2^25 legal fix_word patterns (first byte 0 or 255) x design sizes {:?} (fix_word units)", sds), per * sds.len() as u64, |r, acc| {
            for i in r {
                let ds = sds[(i / per) as usize];
                let k = i % per;
                let x = if k < 1 << 24 { k as i32 } else { (0xff00_0000u32 | (k - (1 << 24)) as u32) as i32 };
                check_scaled(i, x, ds, acc);
            }
        });
    }
    // ---- part 3
    {
        let maxlen = ctx.pick(6u32, 8u32);
        let n = vcore::strings_upto(7, maxlen) - 1;
        // one index per (sequence, limit): limit runs over 1..=maxlen, limits above the length are skipped
        ctx.family("compress-sequences", &format!("every sequence (order and multiplicity kept) of 1..={maxlen} values over the lattice {LAT7:?} x every limit 1..=length"), n * maxlen as u64, |i, acc| {
            let seq: Vec<i64> = vcore::nth_string(7, i / maxlen as u64 + 1).into_iter().map(|d| LAT7[d as usize]).collect();
            let limit = (i % maxlen as u64 + 1) as usize;
            if limit > seq.len() {
                return; // not a case: the index space is rectangular for addressing only
            }
            check_compress(i, &seq, limit as u8, acc, &|| json!({"kind": "compress", "values": seq, "limit": limit}));
        });
        let bits = ctx.pick(15usize, 20usize);
        let lats = &lats;
        let per_subset = (bits * TRANSFORMS.len()) as u64;
        let n = 2 * (1u64 << bits) * per_subset;
        ctx.family("compress-subsets", &format!("every non-empty subset of the first {bits} points of two lattices (0..{bits}: every gap composition; Fibonacci numbers: spread-out gaps) x every limit 1..=|S| x affine maps v -> s*v+o for (s,o) in {TRANSFORMS:?}"), n, |i, acc| {
            let d = vcore::digits(i, &[2, 1 << bits, bits as u64, TRANSFORMS.len() as u64]);
            let set: Vec<i64> = (0..bits).filter(|k| d[1] >> k & 1 == 1).map(|k| lats[d[0] as usize][k]).collect();
            let limit = d[2] as usize + 1;
            if set.is_empty() || limit > set.len() {
                return;
            }
            let (s, o) = TRANSFORMS[d[3] as usize];
            let values: Vec<i64> = set.iter().map(|v| s * v + o).collect();
            check_compress(i, &values, limit as u8, acc, &|| json!({"kind": "compress", "values": values, "limit": limit}));
            if i % 1_000_003 == 5 {
                acc.sample(i, || json!({"values": values, "limit": limit, "min_tolerance": fix::min_tolerance(&fix::sorted_distinct(&values), limit)}));
            }
        });
        // extreme members: classes that span more than the largest fix_word (distances up to 2^32 - 2)
        let ext = &EXTREME_LATTICE;
        let eb = ext.len();
        ctx.family("compress-extremes", &format!("every non-empty subset of {ext:?} (-2048.0, +-2047.999999, +-2047, +-1024, 0 and small values, negative odd sums included; and the empty input) x every limit 1..=|S|"), (1u64 << eb) * eb as u64, |i, acc| {
            let d = vcore::digits(i, &[1 << eb, eb as u64]);
            let set: Vec<i64> = (0..eb).filter(|k| d[0] >> k & 1 == 1).map(|k| ext[k]).collect();
            let limit = d[1] as usize + 1;
            if set.is_empty() {
                // the empty input, once per limit 1..=|lattice| and once with the largest limit
                acc.count("compress_empty_input");
                check_compress(i, &[], if limit == eb { 255 } else { limit as u8 }, acc, &|| json!({"kind": "compress", "values": [], "limit": if limit == eb { 255 } else { limit }}));
                return;
            }
            if limit > set.len() {
                return;
            }
            if set[set.len() - 1] - set[0] > i32::MAX as i64 {
                acc.count("span_exceeds_largest_fix_word");
            }
            check_compress(i, &set, limit as u8, acc, &|| json!({"kind": "compress", "values": set, "limit": limit}));
        });
        let limits = [15u8, 63, 255];
        ctx.family("compress-large", &format!("{SHAPES} deterministic families (progressions, clusters, scattered, powers of two, parabola ...) of n values for every n in 256..=300 x limits 15, 63, 255"), SHAPES * 45 * 3, |i, acc| {
            let d = vcore::digits(i, &[SHAPES, 45, 3]);
            let values = large_family(d[0], 256 + d[1]);
            let limit = limits[d[2] as usize];
            check_compress(i, &values, limit, acc, &|| json!({"kind": "compress-large", "shape": d[0], "n": 256 + d[1], "limit": limit}));
        });
        // both sides of the 255-class / 8-bit index limit: 254, 255, 256, 257 values (shapes 0, 1, 2, 4 are injective)
        let sizes: &[u64] = if ctx.quick() { &[254, 255, 256, 257, 300] } else { &[254, 255, 256, 257, 277, 300] };
        ctx.family("compress-large-all-limits", &format!("the same {SHAPES} families with n in {sizes:?} x every limit 1..=255"), SHAPES * sizes.len() as u64 * 255, |i, acc| {
            let d = vcore::digits(i, &[SHAPES, sizes.len() as u64, 255]);
            let values = large_family(d[0], sizes[d[1] as usize]);
            let limit = d[2] as u8 + 1;
            let distinct = fix::sorted_distinct(&values).len();
            if distinct == 255 && limit >= 254 {
                acc.count("compress_255_distinct_at_limit_254_255");
            }
            if distinct == 256 && limit == 255 {
                acc.count("compress_256_distinct_at_limit_255");
            }
            check_compress(i, &values, limit, acc, &|| json!({"kind": "compress-large", "shape": d[0], "n": sizes[d[1] as usize], "limit": limit}));
        });
    }
    // ---- part 3b
    ctx.family("pl-table-limits-through-conversion", "property lists with N distinct non-zero CHARWD (N = 255, 256, 257), CHARHT / CHARDP (15, 16, 17), CHARIC (63, 64, 65) in 3 value shapes, through from_pl_source_code -> tfm::File -> serialize -> deserialize: table within the TFM limit (256/16/16/64 words), every index inside the table, every value read back within half the brute-force minimal tolerance", 4 * 3 * 3, |i, acc| {
        let d = vcore::digits(i, &[4, 3, 3]);
        check_table_limit(i, d[0] as usize, TABLE_KINDS[d[0] as usize].2[d[1] as usize], d[2], acc);
    });
    // ---- part 4
    {
        let nmax = ctx.pick(6usize, 8usize);
        for n in 1..=nmax {
            let radices = nl_space(n);
            ctx.family(&format!("nextlarger-{n}"), &format!("every partial functional graph on {n} characters (codes {:?}), every 'character exists' mask on the first {} of them, TFtoPL (drop) and PLtoTF (keep) mode, edges given in ascending and descending order", &CODES[..n], n.min(4)), vcore::product(&radices), |i, acc| {
                let d = vcore::digits(i, &radices);
                check_next_larger(i, n, &d[..n], d[n], d[n + 1] == 1, d[n + 2] == 1, acc);
                if i % 400_009 == 9 {
                    acc.sample(i, || json!({"n": n, "f": &d[..n], "mask": d[n]}));
                }
            });
        }
    }
    ctx.family("nextlarger-256", &format!("{LARGE_GRAPHS} deterministic graphs on all 256 characters (chains and cycles of 256 in both directions, stars with and without a self-loop on the hub (in-degrees 127, 128, 129, 254, 255, 256), two mutually linked hubs, binary trees, permutation cycles, rho shapes, interleaved chains, 7-bit boundary crossings, self-loops at 0 and 255) x 3 existence masks x drop/keep x edge order"), LARGE_GRAPHS * 3 * 2 * 2, |i, acc| {
        let d = vcore::digits(i, &[LARGE_GRAPHS, 3, 2, 2]);
        check_next_larger_large(i, d[0], d[1], d[2] == 1, d[3] == 1, acc);
    });
    ctx.require("route_character_dimension", "a fix_word carried as CHARWD/CHARHT/CHARDP/CHARIC");
    ctx.require("route_kern", "a fix_word carried as KRN");
    ctx.require("route_design_size", "a fix_word carried as DESIGNSIZE");
    ctx.require("compress_empty_input", "compress of no values");
    ctx.require("compress_255_distinct_at_limit_254_255", "exactly 255 distinct values with limit 254 or 255 (largest 8-bit index)");
    ctx.require("compress_256_distinct_at_limit_255", "exactly 256 distinct values with limit 255");
    ctx.require("pl_with_64_or_more_distinct_italic_corrections", "a property list with 64 or more distinct non-zero CHARIC values converted to TFM");
    ctx.require("pl_table_needs_compression", "a property list with more distinct values than the TFM table holds");
    ctx.require("nl_character_with_256_incoming_links", "every character, the hub included, names the same next-larger character (in-degree 256)");
    ctx.require("nl_character_with_255_incoming_links", "a character with exactly 255 incoming next-larger links");
    ctx.require("nl_character_with_128_incoming_links", "a character with exactly 128 incoming next-larger links");
    ctx.require("nl_256_characters", "a next-larger graph on all 256 characters");
    ctx.require("nl_chain_of_200_or_more", "a next-larger chain of 200 or more characters");
    ctx.require("seven_digit_fraction", "a fix_word whose text needs a 7th fraction digit (the only texts that reach the rounding branch `delta > 2^20` of TFtoPL §42)");
    ctx.require("negative_with_fraction", "a negative fix_word with a non-zero fraction (borrow in TFtoPL §43)");
    ctx.require("beyond_16", "a fix_word of magnitude >= 16.0 (integer parts of 2-4 digits)");
    ctx.require("scaled_negative_value", "store_scaled with first byte 255 (sw - alpha)");
    ctx.require("scaled_z_normalised", "design size >= 128pt, so the loop of TeX §572 halves z");
    ctx.require("compression_needed", "more distinct values than the limit");
    ctx.require("tolerance_odd", "an odd minimal tolerance (midpoint rounding matters)");
    ctx.require("pltotf_excess_rule_matters", "PLtoTF's `excess` counter would stop merging before the greedy cover is complete");
    ctx.require("span_exceeds_largest_fix_word", "the input spans more than 2047.999999 (the distance of two values does not fit in a fix_word)");
    ctx.require("duplicates_in_input", "the input repeats a value");
    ctx.require("nl_cycle", "the graph has a cycle");
    ctx.require("nl_two_cycles", "the graph has two cycles");
    ctx.require("nl_nonexistent_target", "a link points to a nonexistent character");
    ctx.require("nl_path_into_cut_cycle", "a chain runs into a cycle that was cut");
    ctx.finish("fix_word text: every pattern of the stated ranges, printed and read back inside generated property lists (non-trivial = non-zero fraction); to_scaled: lattice + full sweep of the legal patterns (non-trivial = more than one significant byte); compress: every sequence/subset x limit (non-trivial = more distinct values than the limit); next larger: every partial functional graph x existence mask (non-trivial = a chain of length >= 2 or a warning)");
}

fn replay(case: &Value, acc: &mut Acc) {
    let u = |k: &str| case[k].as_u64().unwrap_or(0);
    match case["kind"].as_str() {
        Some("fixbatch") => {
            let bits: Vec<u32> = case["patterns"].as_array().map(|a| a.iter().filter_map(|v| v.as_u64()).map(|v| v as u32).collect()).unwrap_or_default();
            check_fix_batch(0, &bits, acc);
        }
        Some("scaled") => check_scaled(0, case["x"].as_i64().unwrap_or(0) as i32, case["design_size"].as_i64().unwrap_or(0) as i32, acc),
        Some("compress") => {
            let values: Vec<i64> = case["values"].as_array().map(|a| a.iter().filter_map(|v| v.as_i64()).collect()).unwrap_or_default();
            check_compress(0, &values, u("limit") as u8, acc, &|| case.clone());
        }
        Some("compress-large") => {
            let values = large_family(u("shape"), u("n"));
            check_compress(0, &values, u("limit") as u8, acc, &|| case.clone());
        }
        Some("table-limit") => {
            let kind = TABLE_KINDS.iter().position(|k| Some(k.0) == case["dimension"].as_str()).unwrap_or(0);
            check_table_limit(0, kind, u("n") as usize, u("shape"), acc);
        }
        Some("nextlarger-large") => check_next_larger_large(0, u("shape"), u("mask"), case["drop"].as_bool().unwrap_or(true), case["reversed"].as_bool().unwrap_or(false), acc),
        Some("route") => {
            let g = |k: &str| -> Vec<i32> { case[k].as_array().map(|a| a.iter().filter_map(|v| v.as_i64()).map(|v| v as i32).collect()).unwrap_or_default() };
            let route = ROUTES.iter().position(|r| Some(*r) == case["route"].as_str()).unwrap_or(0);
            check_route(0, route, &g("values"), &g("filler"), acc);
        }
        Some("nextlarger") => {
            let f: Vec<u64> = case["f"].as_array().map(|a| a.iter().filter_map(|v| v.as_u64()).collect()).unwrap_or_default();
            check_next_larger(0, u("n") as usize, &f, u("mask"), case["drop"].as_bool().unwrap_or(true), case["reversed"].as_bool().unwrap_or(false), acc);
        }
        _ => {
            eprintln!("replay: unknown case kind");
            std::process::exit(2);
        }
    }
}
