//! C17 — not built yet.
fn main() {
    eprintln!("c17: check not built yet");
    std::process::exit(2);
}
