#!/bin/bash
# Builds the whole framework offline from files on disk (run once after a fresh restore).
set -e
cd "$(dirname "$0")"
export CARGO_NET_OFFLINE=true
(cd harness && cargo build --release --offline --workspace 2>&1 | tail -n 3)
if [ -x harness-sched/build.sh ]; then ./harness-sched/build.sh; fi
echo "setup done"
