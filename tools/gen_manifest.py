#!/usr/bin/env python3
"""Regenerates /verif/MANIFEST.json from the table below (one entry per property that has a check)."""
import json, os, sys

ROOT = os.path.dirname(os.path.dirname(os.path.abspath(__file__)))

# id -> (category, technique, level text, level note, design_ref)
CHECKS = {
    "C16": ("model_checking",
            "explicit-state BFS over VarRemover histories with merging on the full implementation state + bounded-exhaustive enumeration of op sequences, operand bit patterns and byte strings",
            "Every op variant at every operand-width boundary, every sequence over a per-variant menu, every 32-bit operand pattern (thorough; boundary windows quick), every byte string up to 2 (3) bytes and every truncated payload are run through the real serialize/deserialize; VarRemover is driven as a state machine over a 29-op alphabet (every history up to length 5 (6) without merging, BFS to depth 7 (8) with merging on the drained dvi::Values state) and compared after every history with an independent position tracker. Coverage statement, not a sample.",
            "Trusted: the 120-line position tracker reftex::dvipos (bound to the crate's own dvi::Values on every history); DVI grammar restrictions (post_post last, strings <= 255 bytes); positions stay inside i32.",
            "3 C16"),
    "C04": ("exploration",
            "bounded-exhaustive enumeration of paragraphs against brute force over every break sequence, plus a per-step check of every logged feasible breakpoint",
            "Every list of 4 (5) boxes over a 27-item separator menu (glue lattices, penalties incl. forced/forbidden, discretionaries with pre/post/replace material, kerns, math, adjacent discardables) x width sequences x tolerances (incl. > 10000) x parameter deviations x looseness is broken by the real break_line_single_attempt and compared with reftex::kp: Some iff a feasible sequence exists, the returned sequence is feasible and demerit-minimal among ALL sequences, looseness per TeX 875; every feasible breakpoint the implementation logs must carry the badness/penalty/demerits the model computes. 1.4e7 (3e8) instances.",
            "Trusted: reftex::kp (transliteration of TeX 813-875), self-validated on every run against the 19 TeX-recorded golden logs of the repository (3690 feasible-break records, 280 chosen lines). Non-monotone instances (property's premise) are detected and skipped, counted. Lists with more breakpoints than the bound, leaders/inserts/marks and kerns inside replaced material are outside the alphabet.",
            "3 C04"),
    "C12": ("exploration",
            "bounded-exhaustive enumeration of texts and hand-built lists; reference post_line_break and space-factor model; model-independent conservation invariant",
            "Every word sequence up to 3 (5) words over a 14-word cmr10 vocabulary (ligatures, kerns, sentence punctuation, explicit hyphens, capitals) x spacings x skip/penalty/sfcode settings x width/indent sequences x hyphenation on/off, and every hand-built list of 3 (4) boxes x 24 fillers (adjacent glue/penalty/kern, discretionaries with post-break and replace material, forced breaks), is typeset by the real code. Checked per case: inter-word glue = TeX 1041-1044 model; hlist spells the words; every line = reference post_line_break (TeX 877-890) on the chosen breakpoints (contents, width, shift, glue set, inter-line penalties); un-breaking the vlist reproduces the hlist; no line begins with discardable material (TeX's reading).",
            "Trusted: reftex::para, self-validated on every run against 21 TeX-recorded spacing cases and 276 TeX-typeset lines of 15 recorded paragraphs from the repository. Inter-line glue is not compared (property does not state it). Math nodes and infinite-order totals that cancel are outside the alphabet.",
            "3 C12"),
    "C15": ("exploration",
            "bounded-exhaustive enumeration of node lists x target widths against a reference hpack with exact rationals",
            "Every list of up to 4 (5) nodes over a 24-node menu (chars, ligature, kerns, fixed and running rules, hboxes/vboxes with shifts, penalty, discretionary, glue), every list of 1-3 glues over the full stretch x shrink cross of all four orders with positive, zero and negative amounts, deeper glue-only families and max-dimen values, packed by the real HBox::pack to up to 13 targets at every boundary (natural, +-1sp, -shrink, -shrink+-1sp, +stretch, far) and compared with reftex::kp::hpack: width, height, depth, glue order, and the exact identity natural + ratio*total = width. 6.3e7 (6.4e8) packs.",
            "Trusted: reftex::kp::hpack (TeX 649-667), self-validated on every run by re-packing 128 TeX-typeset cmr10 lines recorded in the repository. The sign of the ratio of an overfull box is recorded, not judged (HBox has no glue_sign; the property compares printed forms). Glue totals beyond 32 bits are outside TeX's own domain and skipped.",
            "3 C15"),
    "C17": ("exploration",
            "bounded-exhaustive sweeps (all 2^32 fix_words in the thorough tier) against transliterations of TFtoPL/PLtoTF/TeX and brute-force oracles",
            "fix_word text: every |x| < 2^24 plus windows at powers of two (quick), all 2^32 bit patterns (thorough) printed through the real property-list writer and read back by the real PL parser, text compared with TFtoPL 40-43 and value with PLtoTF 62-66. to_scaled: value x design-size lattice and all 2^25 legal patterns x 6 (233) design sizes against TeX 571-572. compress: every sequence/subset over small lattices x every class limit and 256..300-value families against the brute-force minimal tolerance. next-larger: every partial functional graph on up to 6 (8) characters x existence masks against the cycle-cut walk.",
            "Trusted: reftex::fix, self-validated against every real number of five corpus property lists and the repository's compress/next-larger unit cases. 0x80000000 (-2048.0, not expressible in PL) is required only not to panic. PLtoTF's excess counter and midpoint rounding differ from compress but stay inside the property's stated bound (recorded as classes).",
            "3 C17"),
    "C18": ("exploration",
            "bounded-exhaustive enumeration of lists (print -> parse identity, format idempotence) and of source strings over a lexeme alphabet (parser totality)",
            "Every node kind x value boundary set (782 nodes), all ordered pairs, triples over a reduced menu, nesting to depth 2, vertical lists, a glue-ratio sweep around the 16384/20000 clamps, and every source string of up to 5 (6) lexemes over a 16-lexeme alphabet plus well-formed program pieces, string-escape bodies, number lexemes in every context and a function x parameter x value matrix are run through the real printer, parser and formatter: parse(print(list)) == list, format idempotent and meaning-preserving, every source yields a list or errors whose spans lie inside the source, never a panic. 2.0e6 (2.8e7) cases.",
            "Trusted: the generators of reftex::boxl; domain as the property states it (no double quote, normal kerns). Known finding D20 (glue ratio >= 16384 prints but does not parse) is matched by predicate on the case + exact adjusted expectation.",
            "3 C18"),
}

NOT_YET = "check not built yet in this revision (planned, see DESIGN.md section 3)"


def main():
    props = [json.loads(l) for l in open(os.path.join(ROOT, "properties.jsonl"))]
    checks = []
    na = []
    for p in props:
        pid = p["id"]
        if pid in CHECKS:
            cat, tech, text, note, ref = CHECKS[pid]
            checks.append({
                "property_id": pid,
                "quick_cmd": f"./check {pid} --tier quick",
                "thorough_cmd": f"./check {pid} --tier thorough",
                "evidence_file": f"/verif/evidence/{pid}.json",
                "replay_cmd_template": f"./check {pid} --replay {{path}}",
                "engine": "harness",
                "level_claimed": {"category": cat, "text": text, "design_ref": "DESIGN.md section " + ref},
                "level_note": note,
                "technique": tech,
            })
        else:
            na.append({"property_id": pid, "reason": NOT_YET})
    hooks_commits = []
    hc = os.path.join(ROOT, "hook_commits.txt")
    if os.path.exists(hc):
        hooks_commits = [l.split()[0] for l in open(hc) if l.strip() and not l.startswith("#")]
    m = {
        "version": 1,
        "setup_cmd": "cd /verif && ./setup.sh",
        "hooks": {
            "guard": "--cfg texcraft_verif_sched",
            "enable": "RUSTFLAGS='--cfg texcraft_verif_sched' when building /verif/harness-sched (only the texlang crate, only for the C20 thread-schedule engine); every other check builds /repo with the guard off",
            "baseline_off_cmd": "cd /repo && cargo nextest run --workspace --no-fail-fast --tool-config-file pb:/w/lib/nextest.toml --profile pb --test-threads 8 --offline || cargo test --workspace --no-fail-fast --offline",
            "source_commits": hooks_commits,
            "add_only": True,
        },
        "engines": [
            {"name": "harness", "path": "/verif/harness", "serves_properties": sorted(CHECKS.keys()),
             "kind_free_text": "Rust workspace: vcore (deterministic sharded bounded-exhaustive enumeration, level-synchronous explicit-state BFS over replayed histories, panic capture, evidence, known findings), vtex (harness-owned VM state), reftex (reference models), one binary per property; path dependencies on /repo/crates so every run rebuilds from the working tree"},
        ],
        "checks": checks,
        "not_applicable": na,
        "notes": "All verdicts come from complete enumeration inside the bounds stated in each evidence file (model-checking family: bounded-exhaustive exploration of real code against reference models, explicit-state search over operation histories, exhaustive fault/deviation enumeration, exhaustive thread schedules). Known findings: /verif/known_findings.json. Seeded property-breaking changes and which check catches them: /verif/seeded, DESIGN.md section 8.",
    }
    if os.path.isdir(os.path.join(ROOT, "harness-sched")):
        m["engines"].append({"name": "harness-sched", "path": "/verif/harness-sched", "serves_properties": ["C20"],
                             "kind_free_text": "shuttle check_dfs (exhaustive DFS over thread schedules) driving the real Tag::new / StaticTag::get through the guarded sync seam"})
    json.dump(m, open(os.path.join(ROOT, "MANIFEST.json"), "w"), indent=1)
    print("MANIFEST.json: %d checks, %d not_applicable" % (len(checks), len(na)))


if __name__ == "__main__":
    main()
