#!/usr/bin/env python3
"""Regenerates /verif/MANIFEST.json from the table below (one entry per property that has a check)."""
import json, os, sys

ROOT = os.path.dirname(os.path.dirname(os.path.abspath(__file__)))

# id -> (category, technique, level text, level note, design_ref)
CHECKS = {
    "C16": ("model_checking",
            "explicit-state BFS over VarRemover histories with merging on the full implementation state + bounded-exhaustive enumeration of op sequences, operand bit patterns and byte strings",
            "Every op variant at every operand-width boundary, every sequence over a per-variant menu, every 32-bit operand pattern (thorough; boundary windows quick), every byte string up to 2 (3) bytes and every truncated payload are run through the real serialize/deserialize; VarRemover is driven as a state machine over a 29-op alphabet (every history up to length 5 (6) without merging, BFS to depth 7 (8) with merging on the drained dvi::Values state) and compared after every history with an independent position tracker. Coverage statement, not a sample.",
            "Trusted: the 120-line position tracker reftex::dvipos (bound to the crate's own dvi::Values on every history); DVI grammar restrictions (post_post last, strings <= 255 bytes); positions stay inside i32.",
            "3 C16"),
    "C01": ("model_checking",
            "bounded-exhaustive enumeration of group/assignment histories on the real VM, compared with a stack-of-snapshots model after every operation, plus explicit-state BFS with merging on the drained implementation state",
            "For 23 target kinds (all register kinds incl. aliases and \\advance, both catcode and mathcode tables, \\endlinechar, parameters, \\newInt(Array), macros, \\let, \\countdef/\\toksdef/\\chardef/\\mathchardef each also on active characters, font selectors, \\globaldefs) every history of { } local global of length 7 (9, closed 10) on one target, 5 (7) on two colliding targets, depth-8 nests with up to 2 (3) assignment clusters in every slot, and every pair of kinds is run on a fresh real VM with a probe after every operation and compared with the model. An explicit-state search per kind merges histories on (depth, value at every open level drained from the real VM) and reaches the fixpoint of the reachable state space in the thorough tier.",
            "Trusted: the snapshot model in c01/src/model.rs (tex.web 268-284, 1211-1218), self-validated against 17 expectations of the repository's own tests. Hash order inside the subject is not controllable: failing cases are re-executed 5x. \\gdef under negative \\globaldefs and \\let to an undefined command are outside the statement.",
            "3 C01"),
    "C05": ("exploration",
            "bounded-exhaustive enumeration of lig/kern programs (as raw instruction chains in several layouts) x words x boundary modes against a transliteration of TeX's main-loop cursor and Knuth's loop detector",
            "Every program of up to 2 (3) rules over left in {boundary, a, b} x right in {a, b, right boundary} x {kerns, all 8 ligature forms inserting a, b or c}, laid out consecutively, behind 300 unreachable instructions (entry-point redirects), with SKIP over a foreign instruction, fall-through and shared tails, and with an unconditional-stop word inside a chain, x 3 boundary characters x every word of length <= 5 over {a,b} x 3 boundary modes: compile reports a loop iff TFtoPL's f(x,y) finds one (and every reported pair really loops); for loop-free programs the compiled run yields the same glyphs, ligature/character distinction, kerns (value and position) as reftex::ligkern::run on the raw words; output originals plus boundaries spell the word. 3.9e7 (1.2e9) runs.",
            "Trusted: reftex::ligkern (TeX 1034-1040 incl. lig_stack, pack_lig, lft_hit/rt_hit; TFtoPL 88-95), self-validated on every run against 42 TeX-verified cases and 11 loop verdicts from the repository. Alphabets larger than 3 letters and words longer than 5 are outside the bound.",
            "3 C05"),
    "C06": ("exploration",
            "bounded-exhaustive sweeps (every scaled value in the thorough tier) and enumeration of constants / operand lattices through the real VM against transliterations of TeX's scanning and arithmetic routines",
            "(a) every scaled value with |s| < 2^24 plus windows at powers of two and multiples of 65536 (quick), all 2^32 values (thorough): Display equals print_scaled (TeX 103) and parse_no_units / parse_from_string scan back to the same value. (b) constants through the real VM: sign strings x decimal/octal/hex/alphabetic/internal integer parts at every limit x fraction digit strings (all of <= 2 (4) digits, long patterns to 20 digits, binary ties) x every unit incl. true, em/ex, fil/fill/filll x keyword spacings, for \\dimen, \\count and \\skip, against reftex::scanum (value, error or not, clamped value). (c) \\advance/\\multiply/\\divide on a 58-value boundary lattice squared for count, dimen and skip, plus sweeps of the pure kernels nx_plus_y, xn_over_d, checked_div, from_decimal_digits, Scaled::new. 2.7e8 (4.3e11) evaluations.",
            "Trusted: reftex::arith and reftex::scanum (tex.web 99-108, 407, 440-462, 1236-1240), self-validated against 30 expectations of the repository's tests. Texts in which TeX itself finds no well-formed constant are judged for no-panic only; operand -2^31 (outside TeX's integers) likewise except for \\advance wrap-around. Known findings D22b and D33 are pinned by the repository's own tests.",
            "3 C06"),
    "C09": ("exploration",
            "bounded-exhaustive enumeration of token strings over the whole vocabulary and of single (double) token deviations from seed programs, in all four interaction modes, in isolated worker processes",
            "Every string of up to 2 (3) tokens over a 114-token vocabulary (every installed primitive, braces, numbers at and beyond every limit, non-ASCII) and up to 3 (4) over a 40-token core, and every single deletion / substitution / insertion (thorough: every pair over a 12-token vocabulary) applied to 80 seed programs (the repository's all_error_cases plus idioms and extreme-value seeds), each in errorstop, scroll, nonstop and batch mode on a fresh real VM: no panic, no abort (workers run with 512 MB stacks and a 3 GiB address-space limit; a dead or stalled worker is attributed to its case), every error renders to non-empty text with a trace at line >= 1, the execution stack is balanced and the VM runs a further source afterwards. 6.3e5 (3.1e7) runs; budget cut-offs (3000 expansions, 100 recoverable errors) are counted, not judged.",
            "Trusted: the harness state vtex::HState (same components and hook delegations as StdLibState, real built-ins, in-memory file system, scripted terminal). Known findings D8-the-non-variable and D8-file-area are unimplemented paths (todo!/panic!) keyed by call site (file + source line text); any other site is a violation.",
            "3 C09"),
    "C10": ("fault_enumeration",
            "exhaustive fault enumeration around valid fonts and property lists (every value of every header word, every truncation, every byte mutation in a bounded region, every token fault), in isolated worker processes",
            "TFM bytes: each of the twelve 16-bit header words set to every value 0..65535 against base files and truncated files, pairs of size-table bytes of minimal files, every truncation length of every corpus font, every 1-byte mutation of the header/char_info/lig-kern region of the smallest fonts. PL text: every token deleted / duplicated / replaced by boundary numbers / unbalanced / truncated in every corpus property list, template property lists at the table-size limits, short texts, deep nesting, many entry points. tfm_to_pl and pl_to_tfm must return (no panic, no abort: a dead worker is attributed to its case) and whatever pl_to_tfm returns must be accepted by tfm::File::deserialize and satisfy the independent reader's size equations. 3.0e7 (1.4e8) cases.",
            "Trusted: reftex::tfmraw (independent 120-line TFM reader) for the size equations. Overflow checks and debug assertions are on, as in the repository's own test profile.",
            "3 C10"),
    "C11": ("exploration",
            "bounded-exhaustive enumeration of generated property lists and hand-written non-canonical TFM files plus the whole corpus; byte fixed point and semantic equality decided with an independent reader and the lig/kern interpreter on every character pair",
            "Every warning-free corpus font and every generated property list (dimension lattices per field, tags, NEXTLARGER chains, VARCHAR recipes, header variants, the C05 programs in 5 label layouts, entry-point/boundary placements around index 255/256, table-size boundaries 15/16/17, 63/64/65, 255/256/257) and 2^7 non-canonical encodings of hand-written TFMs: b1 = pl_to_tfm(tfm_to_pl(b0)) must raise no warning, a second round trip must be the byte-for-byte identity with no warning, and b1 must describe the same font as b0 under reftex::tfmraw: same characters, per character the same width/height/depth/italic values and tag, same parameters and header, and reftex::ligkern on the raw words of both files gives the same result for every (left, right) in (chars + boundaries)^2, also compared with CompiledProgram::compile_from_tfm_file on both. 5.9e5 (9.3e6) fonts.",
            "Trusted: reftex::tfmraw and reftex::ligkern. Header strings are compared modulo ASCII case (TFtoPL upper-cases them silently) and the seven-bit-safe flag against an independent computation (PLtoTF recomputes it); fonts with more than 254 parameters cannot be carried by a property list and are reported separately.",
            "3 C11"),
    "C08": ("fault_enumeration",
            "every line boundary of every enumerated program as a checkpoint (serialise, deserialise, continue) in three formats; differential oracle against the uninterrupted run",
            "Programs of 1-3 (4) one-line fragments over a 41-fragment alphabet (definitions incl. active characters, aliases of every command kind, all register kinds, both code tables, \\endlinechar, \\globaldefs, open groups with saved values, open conditionals, fonts, \\newInt, interner growth) plus sequences of stream operations with open \\read files: after every line the VM is serialised and deserialised with JSON, MessagePack and bincode through the same calls as the repository's serde tests, and the rest of the program plus an observer that prints 31 targets and drains every open conditional and group must produce identical tokens and error. Second oracle on a subset: ser(de(ser(vm))) equals ser(vm) as canonicalised JSON.",
            "Trusted: the differential itself (no model). File system and terminal are re-attached after load (serde(skip) by design). Checkpoints with pending input are outside the property.",
            "3 C08"),
    "C13": ("exploration",
            "bounded-exhaustive enumeration of pattern sets x exception lists x words against Liang's rule evaluated by definition",
            "Every single pattern of up to 3 letters over {a,b} with anchors and digits, every unordered pair of 1128 patterns in both load orders, exception entries with every hyphen placement against every pattern set of size <= 1 and against pairs, lists of two exceptions, long patterns around the 16-zero-run encoding (14..18, 30..34 letters) with words up to 40 letters, and plain TeX's own 4447 patterns on 16753 words, each looked up through the real calculate_indices for every word of length <= 4 (6) in all letter cases and compared with reftex::liang (max digit over all matches, odd = hyphen, exceptions win). 2.8e8 (4e9) lookups.",
            "Trusted: reftex::liang (TeX 919-931, 935-941, 962-963), self-validated on every run against the crate's 20 recorded hyphenations and 3 score vectors under plain TeX's patterns. Duplicate patterns on one letter string are outside the domain (TeX 963 rejects them). Known findings D11, D11b, D11c (exceptions stored as 6/7 patterns) are matched by predicate on the case + exact adjusted model.",
            "3 C13"),
    "C14": ("exploration",
            "bounded-exhaustive enumeration of horizontal lists in cmr10 and in synthetic fonts (every lig/kern program of 1-2 rules touching the hyphen and the boundaries) against a transliteration of TeX's hyphenation pass",
            "47 cmr10 words crossing every ligature at a cut (plus 63/64/65-letter words, capitals, explicit hyphens) x 12 sentence templates x {plain TeX patterns, every position} x all hyphen minima, ordered word pairs, and synthetic fonts whose program is every single rule / every pair of 400 rules over {left boundary, a, b, -} x {a, b, -, right boundary} x all 8 ligature kinds and kerns, on every word <= 4 over {a,b} in 7 templates: after the real hyphenation pass (1) deleting the inserted discretionaries restores the list node for node, (2) letters are conserved at every discretionary, (3) cuts sit exactly where TeX's pass (reftex::liang hyphenate_list: 894-918 incl. reconstitute) offers them, in exactly the words TeX's finder selects. 3.7e6 (1.0e8) lists.",
            "Trusted: reftex::liang's pass model, which must reproduce all 33 TeX-verified expectations of the repository's boxworks-hyphenate tests node for node before a run starts. Programs with infinite ligature loops and TeX's own hyf_bchar quirk cases (decided by the model) are outside the domain. Known finding D21b (left context node before the word not used when rebuilding) matched by predicate + adjusted model.",
            "3 C14"),
    "C20": ("model_checking",
            "explicit-state BFS over container histories with merging on exact implementation state; exhaustive enumeration of all histories/patterns/texts; exhaustive DFS over thread schedules (shuttle) of the real tag code through the guarded sync seam",
            "Grouping map: every history of length <= 7 (8) over {insert(k,v,Local|Global), begin_group, end_group} on both GroupingHashMap and GroupingVec without merging, and BFS to depth 11 (14) with merging on the container's own iter_all/drain state, compared with reftex::scope after every step; replay law from_iter(iter_all()) checked at every state incl. continuations. Interner: every history <= 5 (6) of get_or_intern/get/resolve over prefix-sharing strings under RandomState and under a constant hasher, with a serde round trip at every position. KMP matcher: every pattern <= 5 x text <= 12 over {a,b}, <= 4 x <= 10 (12) over {a,b,c}. Tags: EVERY schedule (shuttle check_dfs, no bound) of 2-3 threads x Tag::new / StaticTag::get: all tags pairwise distinct, every get() equal, no deadlock; 3.7e4 (3.5e7) schedules.",
            "Trusted: reftex::scope, naive search, Vec<String>; the 110-line seam module (commit b5096a6, cfg texcraft_verif_sched) whose OnceLock follows the contract of std's get_or_init; shuttle explores sequentially consistent interleavings at lock acquire/release (adequate for mutex-protected sections; data races are outside). GroupingVec == is judged only when slot counts agree (derived PartialEq distinguishes [None] from []; not observable behaviour).",
            "3 C20"),
    "C02": ("exploration",
            "bounded-exhaustive enumeration of (parameter text x replacement text x call token string) on a minimal-state real VM against two independent reference matchers",
            "342 definitions (prefix in {-, a, ab} x 0-2 parameters, each undelimited or delimited by ., ab, aa (self-overlapping: the KMP fallback path), a., \\x, space, with and without the trailing #{ form) x EVERY token string of up to 5 (7) tokens over {a b . { } space \\x} (unbalanced ones included), a 3-parameter family, argument tuples of 1-3 (4) parameters x 10/17 argument shapes (empty, single token, single group, several groups, nested, leading spaces, delimiter characters with other catcodes), nine-parameter families x 3^9 (5^9) tuples, and replacement texts over {x \\x space ## {} #i {#i}} under \\def / \\gdef / \\global\\def: the exact token list after one expansion step (observed verbatim by a \\capture primitive) equals the reference expansion plus the untouched rest wherever the call matches. 1.8e7 (7.7e8) cases.",
            "Trusted: reftex::macros, which carries two independent formulations (a transliteration of tex.web 389-400/473-479 and a declarative statement of the TeXbook ch. 20 rules) that must agree on every case, self-validated against 13 expectations of the repository's def.rs tests. Calls that do not match are outside the property: only no-panic and a located error are required there. \\par/\\long/\\outer are error paths covered by C09.",
            "3 C02"),
    "C07": ("exploration",
            "bounded-exhaustive enumeration of conditional trees (expected output by construction) and of \\expandafter/\\noexpand token strings with a three-way comparison simple / optimised / reference expander",
            "288 conditions (\\iftrue, \\iffalse, \\ifnum x 3 relations, \\ifodd incl. negative and extreme values, \\ifcase incl. out of range) x 10 contexts; all trees of up to 3 nodes over 22 node variants and up to 5 (6) nodes, depth 4, over 5 variants, with junk inserted in skipped branches (unbalanced braces, \\or/\\else at depth >= 1, a macro hiding \\fi, conditionals aliased by \\let); depth-6 chains with up to 2 deviations: delivered tokens equal the letters of the selected branches. Every string of up to 6 (7) symbols over {\\expandafter, a second name for it, \\noexpand, three macros, \\relax, x, \\iftrue, \\iffalse, \\else, \\fi} in four macro environments plus structured chains and pyramids is run with get_expandafter_simple, with get_expandafter_optimized and through the reference expander: all three deliver the same tokens or all fail. 8.6e6 (2.9e8) cases.",
            "Trusted: reftex::cond (by-construction expectation and a reference expander transliterating tex.web 358, 366-369, 440-445, 494-510; the two must agree on every tree), self-validated against 26 expectations of the repository's tests. Operands are space-terminated (the unterminated idiom \\ifnum1<2\\else is outside the quantifier). Known finding D18 (dont_expand marker lost under \\expandafter) matched by predicate + expander with keep_marker=false.",
            "3 C07"),
    "C03": ("exploration",
            "bounded-exhaustive enumeration of source strings x catcode tables (0, 1, 2 deviations) x end-line characters through the real Lexer and Tracer against a transliteration of TeX's line scanner",
            "Every string of up to 6 (7) characters over a 9-character alphabet (escape, brace, ^, space, newline, letters, %, non-ASCII) and a ^^-heavy alphabet, up to 4 (6) over a 16-character alphabet (CR, NUL, DEL, ~, digits, TAB), with every single and every pair of category-code reassignments among the characters that occur or can be produced by a ^^ reduction, 7 end-line characters plus a sweep of every ASCII end-line character x its 16 catcodes, both report_end_of_line flags, and a family where the configuration changes between calls: every token is compared on value, line number, column, line text and trace value; lexing must not panic or exhaust trace keys. 4.8e7 (1.36e9) cases.",
            "Trusted: reftex::scan (tex.web 343-356), self-validated on every run against 57 table cases copied from the repository's lexer tests. Position convention for ^^x characters is the one the crate's own tests pin (column of the last character of the sequence). Known finding D4 (^^xy hex form) matched by predicate on the case + scanner model with hex=false. Strings longer than the bound and more than two simultaneous catcode deviations are outside.",
            "3 C03"),
    "C19": ("model_checking",
            "explicit-state BFS over \\openin/\\read/\\ifeof/\\closein histories with merging on the drained implementation state; bounded-exhaustive enumeration of file trees against an input-stack model and a model-free inlining oracle",
            "File trees built from an 18-line menu (\\input at every placement, \\endinput incl. inside a macro, groups and conditionals left open, with/without final newline, empty files), depth to 3 (5), fan-out 2, and \\input chains of depth 1..150 for the documented limit of 100, run on the real VM over an in-memory file system and compared with reftex::readtoks and, where inlining is well defined, with the same program with the files pasted in. Read streams: BFS to depth 6 (8) over 34 (46) actions on streams {0,15} ({0,1,15}) plus out-of-range stream numbers and 8 files (missing, empty, with/without final newline, multi-line brace groups, unbalanced), states merged on the observations of a drain program (\\ifeof of all streams and the remaining \\read results), plus every history of length <= 2 (3) without merging. 3e5 (1.2e7) evaluations, 3085 (49624) states.",
            "Trusted: reftex::readtoks on top of reftex::scan, self-validated against 15 of the repository's input.rs tests. Known findings D14a (\\endinput drops the rest of the line) and D14b (\\ifeof one read early) are pinned by the repository's own tests and matched by predicate + adjusted model. An empty \\input file delivering \\par (TeX 538), recoverable unmatched } and undefined control sequences in file names are outside the statement.",
            "3 C19"),
    "C04": ("exploration",
            "bounded-exhaustive enumeration of paragraphs against brute force over every break sequence, plus a per-step check of every logged feasible breakpoint",
            "Every list of 4 (5) boxes over a 27-item separator menu (glue lattices, penalties incl. forced/forbidden, discretionaries with pre/post/replace material, kerns, math, adjacent discardables) x width sequences x tolerances (incl. > 10000) x parameter deviations x looseness is broken by the real break_line_single_attempt and compared with reftex::kp: Some iff a feasible sequence exists, the returned sequence is feasible and demerit-minimal among ALL sequences, looseness per TeX 875; every feasible breakpoint the implementation logs must carry the badness/penalty/demerits the model computes. 1.4e7 (3e8) instances.",
            "Trusted: reftex::kp (transliteration of TeX 813-875), self-validated on every run against the 19 TeX-recorded golden logs of the repository (3690 feasible-break records, 280 chosen lines). Non-monotone instances (property's premise) are detected and skipped, counted. Lists with more breakpoints than the bound, leaders/inserts/marks and kerns inside replaced material are outside the alphabet.",
            "3 C04"),
    "C12": ("exploration",
            "bounded-exhaustive enumeration of texts and hand-built lists; reference post_line_break and space-factor model; model-independent conservation invariant",
            "Every word sequence up to 3 (5) words over a 14-word cmr10 vocabulary (ligatures, kerns, sentence punctuation, explicit hyphens, capitals) x spacings x skip/penalty/sfcode settings x width/indent sequences x hyphenation on/off, and every hand-built list of 3 (4) boxes x 24 fillers (adjacent glue/penalty/kern, discretionaries with post-break and replace material, forced breaks), is typeset by the real code. Checked per case: inter-word glue = TeX 1041-1044 model; hlist spells the words; every line = reference post_line_break (TeX 877-890) on the chosen breakpoints (contents, width, shift, glue set, inter-line penalties); un-breaking the vlist reproduces the hlist; no line begins with discardable material (TeX's reading).",
            "Trusted: reftex::para, self-validated on every run against 21 TeX-recorded spacing cases and 276 TeX-typeset lines of 15 recorded paragraphs from the repository. Inter-line glue is not compared (property does not state it). Math nodes and infinite-order totals that cancel are outside the alphabet.",
            "3 C12"),
    "C15": ("exploration",
            "bounded-exhaustive enumeration of node lists x target widths against a reference hpack with exact rationals",
            "Every list of up to 4 (5) nodes over a 24-node menu (chars, ligature, kerns, fixed and running rules, hboxes/vboxes with shifts, penalty, discretionary, glue), every list of 1-3 glues over the full stretch x shrink cross of all four orders with positive, zero and negative amounts, deeper glue-only families and max-dimen values, packed by the real HBox::pack to up to 13 targets at every boundary (natural, +-1sp, -shrink, -shrink+-1sp, +stretch, far) and compared with reftex::kp::hpack: width, height, depth, glue order, and the exact identity natural + ratio*total = width. 6.3e7 (6.4e8) packs.",
            "Trusted: reftex::kp::hpack (TeX 649-667), self-validated on every run by re-packing 128 TeX-typeset cmr10 lines recorded in the repository. The sign of the ratio of an overfull box is recorded, not judged (HBox has no glue_sign; the property compares printed forms). Glue totals beyond 32 bits are outside TeX's own domain and skipped.",
            "3 C15"),
    "C17": ("exploration",
            "bounded-exhaustive sweeps (all 2^32 fix_words in the thorough tier) against transliterations of TFtoPL/PLtoTF/TeX and brute-force oracles",
            "fix_word text: every |x| < 2^24 plus windows at powers of two (quick), all 2^32 bit patterns (thorough) printed through the real property-list writer and read back by the real PL parser, text compared with TFtoPL 40-43 and value with PLtoTF 62-66. to_scaled: value x design-size lattice and all 2^25 legal patterns x 6 (233) design sizes against TeX 571-572. compress: every sequence/subset over small lattices x every class limit and 256..300-value families against the brute-force minimal tolerance. next-larger: every partial functional graph on up to 6 (8) characters x existence masks against the cycle-cut walk.",
            "Trusted: reftex::fix, self-validated against every real number of five corpus property lists and the repository's compress/next-larger unit cases. 0x80000000 (-2048.0, not expressible in PL) is required only not to panic. PLtoTF's excess counter and midpoint rounding differ from compress but stay inside the property's stated bound (recorded as classes).",
            "3 C17"),
    "C18": ("exploration",
            "bounded-exhaustive enumeration of lists (print -> parse identity, format idempotence) and of source strings over a lexeme alphabet (parser totality)",
            "Every node kind x value boundary set (782 nodes), all ordered pairs, triples over a reduced menu, nesting to depth 2, vertical lists, a glue-ratio sweep around the 16384/20000 clamps, and every source string of up to 5 (6) lexemes over a 16-lexeme alphabet plus well-formed program pieces, string-escape bodies, number lexemes in every context and a function x parameter x value matrix are run through the real printer, parser and formatter: parse(print(list)) == list, format idempotent and meaning-preserving, every source yields a list or errors whose spans lie inside the source, never a panic. 2.0e6 (2.8e7) cases.",
            "Trusted: the generators of reftex::boxl; domain as the property states it (no double quote, normal kerns). Known finding D20 (glue ratio >= 16384 prints but does not parse) is matched by predicate on the case + exact adjusted expectation.",
            "3 C18"),
}

NOT_YET = "check not built yet in this revision (planned, see DESIGN.md section 3)"


def main():
    props = [json.loads(l) for l in open(os.path.join(ROOT, "properties.jsonl"))]
    checks = []
    na = []
    for p in props:
        pid = p["id"]
        if pid in CHECKS:
            cat, tech, text, note, ref = CHECKS[pid]
            # the level text above was written when the check was first built; families added since
            # (seed-driven strengthening, generalisation pass) are named from the committed evidence
            try:
                ev = json.load(open(os.path.join(ROOT, "evidence", pid + ".json")))
                fams = [f.get("name") for f in ev.get("coverage", {}).get("families", []) if f.get("name")]
                if fams:
                    text = text + " Families enumerated by the current tiers (bounds and counts per family are in the evidence file; what each was added for is in mutations/" + pid + "/RESULTS.md): " + ", ".join(fams) + "."
            except Exception:
                pass
            checks.append({
                "property_id": pid,
                "quick_cmd": f"./check {pid} --tier quick",
                "thorough_cmd": f"./check {pid} --tier thorough",
                "evidence_file": f"/verif/evidence/{pid}.json",
                "replay_cmd_template": f"./check {pid} --replay {{path}}",
                "engine": "harness",
                "level_claimed": {"category": cat, "text": text, "design_ref": "DESIGN.md section " + ref},
                "level_note": note,
                "technique": tech,
            })
        else:
            na.append({"property_id": pid, "reason": NOT_YET})
    hooks_commits = []
    hc = os.path.join(ROOT, "hook_commits.txt")
    if os.path.exists(hc):
        hooks_commits = [l.split()[0] for l in open(hc) if l.strip() and not l.startswith("#")]
    m = {
        "version": 1,
        "setup_cmd": "cd /verif && ./setup.sh",
        "hooks": {
            "guard": "--cfg texcraft_verif_sched",
            "enable": "RUSTFLAGS='--cfg texcraft_verif_sched' when building /verif/harness-sched (only the texlang crate, only for the C20 thread-schedule engine); every other check builds /repo with the guard off",
            "baseline_off_cmd": "cd /repo && cargo nextest run --workspace --no-fail-fast --tool-config-file pb:/w/lib/nextest.toml --profile pb --test-threads 8 --offline || cargo test --workspace --no-fail-fast --offline",
            "source_commits": hooks_commits,
            "add_only": True,
        },
        "engines": [
            {"name": "harness", "path": "/verif/harness", "serves_properties": sorted(CHECKS.keys()),
             "kind_free_text": "Rust workspace: vcore (deterministic sharded bounded-exhaustive enumeration, level-synchronous explicit-state BFS over replayed histories, panic capture, evidence, known findings), vtex (harness-owned VM state), reftex (reference models), one binary per property; path dependencies on /repo/crates so every run rebuilds from the working tree"},
        ],
        "checks": checks,
        "not_applicable": na,
        "notes": "All verdicts come from complete enumeration inside the bounds stated in each evidence file (model-checking family: bounded-exhaustive exploration of real code against reference models, explicit-state search over operation histories, exhaustive fault/deviation enumeration, exhaustive thread schedules). Known findings: /verif/known_findings.json. Seeded property-breaking changes and which check catches them: /verif/seeded, DESIGN.md section 8.",
    }
    if os.path.isdir(os.path.join(ROOT, "harness-sched")):
        m["engines"].append({"name": "harness-sched", "path": "/verif/harness-sched", "serves_properties": ["C20"],
                             "kind_free_text": "shuttle check_dfs (exhaustive DFS over thread schedules) driving the real Tag::new / StaticTag::get through the guarded sync seam"})
    json.dump(m, open(os.path.join(ROOT, "MANIFEST.json"), "w"), indent=1)
    print("MANIFEST.json: %d checks, %d not_applicable" % (len(checks), len(na)))


if __name__ == "__main__":
    main()
