#!/usr/bin/env python3
"""Regenerates /verif/MANIFEST.json from the table below (one entry per property that has a check)."""
import json, os, sys

ROOT = os.path.dirname(os.path.dirname(os.path.abspath(__file__)))

# id -> (category, technique, level text, level note, design_ref)
CHECKS = {
    "C16": ("model_checking",
            "explicit-state BFS over VarRemover histories with merging on the full implementation state + bounded-exhaustive enumeration of op sequences, operand bit patterns and byte strings",
            "Every op variant at every operand-width boundary, every sequence over a per-variant menu, every 32-bit operand pattern (thorough; boundary windows quick), every byte string up to 2 (3) bytes and every truncated payload are run through the real serialize/deserialize; VarRemover is driven as a state machine over a 29-op alphabet (every history up to length 5 (6) without merging, BFS to depth 7 (8) with merging on the drained dvi::Values state) and compared after every history with an independent position tracker. Coverage statement, not a sample.",
            "Trusted: the 120-line position tracker reftex::dvipos (bound to the crate's own dvi::Values on every history); DVI grammar restrictions (post_post last, strings <= 255 bytes); positions stay inside i32.",
            "3 C16"),
}

NOT_YET = "check not built yet in this revision (planned, see DESIGN.md section 3)"


def main():
    props = [json.loads(l) for l in open(os.path.join(ROOT, "properties.jsonl"))]
    checks = []
    na = []
    for p in props:
        pid = p["id"]
        if pid in CHECKS:
            cat, tech, text, note, ref = CHECKS[pid]
            checks.append({
                "property_id": pid,
                "quick_cmd": f"./check {pid} --tier quick",
                "thorough_cmd": f"./check {pid} --tier thorough",
                "evidence_file": f"/verif/evidence/{pid}.json",
                "replay_cmd_template": f"./check {pid} --replay {{path}}",
                "engine": "harness",
                "level_claimed": {"category": cat, "text": text, "design_ref": "DESIGN.md section " + ref},
                "level_note": note,
                "technique": tech,
            })
        else:
            na.append({"property_id": pid, "reason": NOT_YET})
    hooks_commits = []
    hc = os.path.join(ROOT, "hook_commits.txt")
    if os.path.exists(hc):
        hooks_commits = [l.split()[0] for l in open(hc) if l.strip() and not l.startswith("#")]
    m = {
        "version": 1,
        "setup_cmd": "cd /verif && ./setup.sh",
        "hooks": {
            "guard": "--cfg texcraft_verif_sched",
            "enable": "RUSTFLAGS='--cfg texcraft_verif_sched' when building /verif/harness-sched (only the texlang crate, only for the C20 thread-schedule engine); every other check builds /repo with the guard off",
            "baseline_off_cmd": "cd /repo && cargo nextest run --workspace --no-fail-fast --test-threads 8 --offline || cargo test --workspace --no-fail-fast --offline",
            "source_commits": hooks_commits,
            "add_only": True,
        },
        "engines": [
            {"name": "harness", "path": "/verif/harness", "serves_properties": sorted(CHECKS.keys()),
             "kind_free_text": "Rust workspace: vcore (deterministic sharded bounded-exhaustive enumeration, level-synchronous explicit-state BFS over replayed histories, panic capture, evidence, known findings), vtex (harness-owned VM state), reftex (reference models), one binary per property; path dependencies on /repo/crates so every run rebuilds from the working tree"},
        ],
        "checks": checks,
        "not_applicable": na,
        "notes": "All verdicts come from complete enumeration inside the bounds stated in each evidence file (model-checking family: bounded-exhaustive exploration of real code against reference models, explicit-state search over operation histories, exhaustive fault/deviation enumeration, exhaustive thread schedules). Known findings: /verif/known_findings.json. Seeded property-breaking changes and which check catches them: /verif/seeded, DESIGN.md section 8.",
    }
    if os.path.isdir(os.path.join(ROOT, "harness-sched")):
        m["engines"].append({"name": "harness-sched", "path": "/verif/harness-sched", "serves_properties": ["C20"],
                             "kind_free_text": "shuttle check_dfs (exhaustive DFS over thread schedules) driving the real Tag::new / StaticTag::get through the guarded sync seam"})
    json.dump(m, open(os.path.join(ROOT, "MANIFEST.json"), "w"), indent=1)
    print("MANIFEST.json: %d checks, %d not_applicable" % (len(checks), len(na)))


if __name__ == "__main__":
    main()
