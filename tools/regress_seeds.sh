#!/bin/bash
# tools/regress_seeds.sh <nslots> [deadline-epoch]  — re-runs every seeded change against its own property's quick tier,
# <nslots> in parallel (scratch worktrees /tmp/mutest-2N), refreshing meta.json; stops taking new seeds at the deadline.
N="${1:-4}"; DL="${2:-0}"
cd /verif
ls seeded | grep -E '^C[0-9]+-' > /tmp/regress-all.txt
for i in $(seq 0 $((N-1))); do
  (
    awk -v n=$N -v i=$i 'NR % n == i' /tmp/regress-all.txt | while read id; do
      [ "$DL" != 0 ] && [ "$(date +%s)" -ge "$DL" ] && break
      P=${id%-*}
      MUTEST_SLOT=2$i VERIF_THREADS=4 tools/seed_detect.sh "$id" "$P" > /tmp/regress-$id.log 2>&1
      echo "$id $(tail -1 /tmp/regress-$id.log | cut -c1-40)"
    done
  ) > /tmp/regress-slot$i.log 2>&1 &
done
wait
