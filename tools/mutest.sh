#!/bin/bash
# tools/mutest.sh <patch.diff|-> <ID> [extra args for the check binary]
# Runs one check against a *scratch worktree* of /repo with the patch applied (never touches /repo).
# The worktree, a path-rewritten copy of the harness and its build output live in /tmp/mutest-$SLOT
# (MUTEST_SLOT, default 0) and are reused between calls; remove with: tools/mutest.sh --clean
set -u
SLOT="${MUTEST_SLOT:-0}"
BASE="/tmp/mutest-$SLOT"
if [ "${1:-}" = "--clean" ]; then
  git -C /repo worktree remove --force "$BASE/wt" 2>/dev/null; rm -rf "$BASE"; git -C /repo worktree prune; exit 0
fi
PATCH="$1"; ID="$2"; shift 2
pkg="c${ID#C}"
mkdir -p "$BASE/out"
HEAD=$(git -C /repo rev-parse HEAD)
if [ ! -d "$BASE/wt" ]; then
  git -C /repo worktree add --detach "$BASE/wt" "$HEAD" >/dev/null 2>&1 || { echo "cannot create worktree" >&2; exit 2; }
fi
git -C "$BASE/wt" checkout -q -- . 2>/dev/null; git -C "$BASE/wt" clean -fdq -e target
git -C "$BASE/wt" checkout -q --force --detach "$HEAD" || { echo "cannot check out $HEAD in the scratch worktree" >&2; exit 2; }
[ "$(git -C "$BASE/wt" rev-parse HEAD)" = "$HEAD" ] || { echo "scratch worktree is not at $HEAD" >&2; exit 2; }
case "$PATCH" in -|/*) ;; *) PATCH="$PWD/$PATCH";; esac
if [ "$PATCH" != "-" ]; then
  git -C "$BASE/wt" apply "$PATCH" || { echo "patch does not apply" >&2; exit 2; }
fi
mkdir -p "$BASE/harness"
rsync -a --delete --exclude target /verif/harness/ "$BASE/harness/"
sed -i "s#/repo/crates#$BASE/wt/crates#g" "$BASE/harness/Cargo.toml"
export CARGO_NET_OFFLINE=true CARGO_TARGET_DIR="$BASE/harness/target"
(cd "$BASE/harness" && cargo build --release --offline -q -p "$pkg" 2>"$BASE/build.log") || { tail -n 30 "$BASE/build.log" >&2; echo "BUILD-FAILED" ; exit 2; }
VERIF_OUT="$BASE/out" VERIF_KNOWN="${VERIF_KNOWN:-/verif/known_findings.json}" VERIF_REPO="$BASE/wt" timeout "${VERIF_TIMEOUT:-3600}" "$CARGO_TARGET_DIR/release/$pkg" "$@" </dev/null
rc=$?
echo "mutest: $ID exit=$rc"
exit $rc
