#!/bin/bash
# tools/take_seeds.sh <worktree-prefix e.g. seed4> <CNN> <letter> [<letter>...]
# confirms each seed of a finished breaker (demo/suite), stores it, runs the property's quick tier against it, removes the worktree
PRE="$1"; P="$2"; shift 2
WT="/tmp/$PRE-$P"
for L in "$@"; do
  id="$P-$L"
  r=$(/verif/tools/confirm_seed.sh "$WT" "SEED-$L" "$id" 2>&1 | tail -1)
  case "$r" in CONFIRMED*) ;; *) echo "$id: NOT CONFIRMED ($r)"; KEEP=1; continue;; esac
  /verif/tools/seed_detect.sh "$id" "$P" >/tmp/take-$id.log 2>&1
  python3 - "$id" <<'PY'
import json,sys
i=sys.argv[1]; m=json.load(open(f'/verif/seeded/{i}/meta.json'))
d=m['detection']; print(i, 'CAUGHT' if any(v['caught'] for v in d.values()) else 'MISSED', {k:v['exit'] for k,v in d.items()}, '|', m.get('summary','')[:110])
PY
done
[ -z "${KEEP:-}" ] && git -C /repo worktree remove --force "$WT" 2>/dev/null
