#!/bin/bash
# tools/seed_detect.sh <seeded-id> <CNN> [tier]  — runs the check against the seeded change (scratch worktree) and records the result in meta.json
set -u
ID="$1"; P="$2"; TIER="${3:-quick}"
D="/verif/seeded/$ID"
out=$(/verif/tools/mutest.sh "$D/patch.diff" "$P" --tier "$TIER" 2>&1); rc=$?
echo "$out" | grep -E "failing case|VIOLATION|HELD|VIOLATED|MACHINERY|mutest" | head -8
first=$(echo "$out" | grep -m1 "failing case" | cut -c1-400)
python3 - "$D/meta.json" "$P" "$TIER" "$rc" "$first" <<'PY'
import json,sys
p=sys.argv[1]; m=json.load(open(p))
m.setdefault("detection",{})[f"{sys.argv[2]}:{sys.argv[3]}"]={"cmd":f"tools/mutest.sh seeded/<id>/patch.diff {sys.argv[2]} --tier {sys.argv[3]}","exit":int(sys.argv[4]),"caught":sys.argv[4]=="1","first_witness":sys.argv[5]}
json.dump(m,open(p,"w"),indent=1)
PY
