#!/usr/bin/env python3
"""Builds /verif/seeded/INDEX.md from the meta.json files (what each seeded change needs, which check catches it)."""
import json, glob, os
ROOT = os.path.dirname(os.path.dirname(os.path.abspath(__file__)))
# seeds that the quick tier missed when first tried, and what was strengthened
HISTORY = {
 "C04-h": "superseded: neutralised for the line breaker by fix 0858765 (C04 holds, the demo passes); still reported by C12",
 "C04-m": "missed at first (no discretionary with a non-empty pre-break of zero width); zero-width pre-breaks in disc-penalties",
 "C04-p": "missed at first (line_penalty only -1/0/1); line_penalty on both sides of +-10000",
 "C05-n": "missed at first (one font per preprocessor); family add-word-history (two fonts, operation histories)",
 "C05-p": "missed at first (per-call comparison); whole-list comparison, back-to-back words with boundary kerns",
 "C07-m": "thread-schedule change filed under C07; caught by C20's schedule engine",
 "C07-n": "missed at first (only five conditionals in the trees); every installed conditional + a harness Condition without DOC; start-up guard on the real built_in_commands map",
 "C07-p": "missed at first (one literal space before relations); space tokens produced by expansion",
 "C08-m": "missed at first (continuation errors never located at pre-checkpoint tokens / not rendered); faulty stored tokens, rendered errors compared",
 "C08-n": "missed at first; catcode set to the type default where the initial table differs (sparse-encoding killer)",
 "C08-o": "missed at first (\\global after the checkpoint only with \\def/variables); every prefixable command kind after the checkpoint; serde(skip) fields walked",
 "C09-o": "missed at first (no 'define a multibyte name, then hit an undefined command' under the default handlers)",
 "C10-m": "missed at first (header sweeps against short files only); family tfm-max-length",
 "C11-o": "missed at first; SKIP landing exactly on the final boundary-entrypoint word",
 "C12-n": "missed at first (only explicit and font kerns in hand-built lists); accent and math kerns",
 "C12-p": "missed by C12 at first (caught by C15); lines with two different infinite orders",
 "C13-p": "missed at first (every harness LowerCaser fixed a..z); a map that is not the identity on ASCII lower case",
 "C14-n": "missed by C14 at first (caught by C13); family cmr10-custom-patterns (long patterns through the list route)",
 "C14-o": "missed at first; every node kind as the node that terminates a word",
 "C14-p": "missed at first; letters immediately followed by digits",
 "C15-p": "missed at first; kerns of all four kinds",
 "C17-p": "missed at first (compress tested with every limit, call sites' limits not); family pl-table-limits-through-conversion",
 "C19-m": "missed at first; \\read inside groups under \\globaldefs (a first version over-demanded \\global\\read: corrected, see AUDIT)",
 "C19-n": "missed by C19 at first (caught by C03); files whose unterminated last line is spaces only",
 "C19-o": "missed at first; \\input issued from macro bodies with pending tokens, files expanding > 32 tokens at once",
 "C20-p": "missed at first (only issued keys resolved); resolve of the first unissued key at every step",
 "C02-k": "missed at first (only inert tokens inside arguments); family expandable-tokens-in-arguments",
 "C05-k": "missed at first (add-word route compared glyphs, not node kinds); Ligature vs Char distinguished",
 "C08-k": "missed at first (delimiters of <= 2 tokens at the checkpoint); containers with >= 3 distinct elements",
 "C09-k": "missed at first (no empty-named control sequence); family empty-cs",
 "C09-l": "missed at first (undefined commands recorded by the harness handler, no undefined active character); family strict-short, active characters in every role",
 "C11-k": "missed at first; family tfm-nextlarger-sevenbit",
 "C11-l": "missed at first; family tfm-design-sizes, DESIGNSIZE members in pl-header",
 "C12-k": "ended as a machinery error at first (start-up comparison of the default sfcode table); now judged cases in hlist-default-sfcodes",
 "C12-l": "missed at first; family para-disc-replace (which also exposed defect D28, fixed by 513ea38)",
 "C13-l": "missed at first (build-then-query only); family hyphenator-histories",
 "C15-k": "missed at first (harness fonts always had all three metrics); partial glyphs through the trait's default method",
 "C17-k": "missed at first (no character with 256 incoming links); star + hub self-loop shapes",
 "C18-l": "missed at first (no lone CR inside a comment before a bracket); family source-comments",
 "C19-k": "missed at first (file names of letters/digits only); families file-names, openin-names (which also exposed defect D27, fixed by bc00549)",
 "C01-j": "missed at first (no \\global\\let X=X self-alias among the assignment forms); G-/L-self-alias for every command kind",
 "C04-i": "missed at first (\\hyphenpenalty / \\exhyphenpenalty never below -10000 with a matching discretionary in the list); family disc-penalties",
 "C05-i": "missed at first (add_word route in boxworks-text not driven); family add-word-route",
 "C05-j": "missed by C05 at first (caught by C17); family kern-design-sizes",
 "C08-j": "missed at first (integer parameters only held in-range values at the checkpoint); out-of-range 'disabled' values for every integer parameter",
 "C11-i": "missed by C11 at first (caught by C10); tables at their maximum size (ne = 256 ...) in full round trips",
 "C11-j": "missed at first; VARCHAR recipes with the same pieces in different slots",
 "C12-j": "missed at first (no non-ASCII white space inside words; spelling rule accepted dropped characters >= 128); tightened spelling rule + white-space members",
 "C13-j": "missed at first (all letters were Unicode-alphabetic); letters outside every Unicode class (apostrophe, U+2019, U+200D, @, U+1F600)",
 "C14-i": "missed by C14 at first (caught by C13); plain TeX's exception words in the vocabulary, family cmr10-custom-exceptions",
 "C14-j": "missed by C14 at first (caught by C13); re-declared exceptions in cmr10-custom-exceptions",
 "C15-i": "missed at first (no zero-width item that is the tallest/deepest); struts, zero-width boxes/glyphs",
 "C15-j": "not reported on purpose: conforms to the statement (see meta.json judgement)",
 "C19-j": "missed at first (balanced groups only on the last line of read files); read files with early-closing groups",
 "C05-h": "missed at first (no family took the raw-TFM route through unpack_entrypoint); family tfm-route-redirect-tables",
 "C11-h": "missed by C11 at first (caught by C10's header-byte sweep); face bytes around the coded/numbered boundary added to the C11 header families",
 "C01-h": "missed at first (macro kinds never combined \\global with \\long/\\outer); prefix-combination assignment forms added",
 "C03-h": "missed at first (C03 drove the bare Lexer, not the stdlib glue); VM-level families vm-endlinechar, vm-catcode",
 "C05-f": "missed at first (ASCII-only alphabet); family programs-8bit",
 "C06-f": "missed at first (malformed constants judged for no-panic only); sub-domain non-decimal constant followed by a decimal point judged precisely",
 "C08-g": "missed at first (no fragment touched the last register of an array); first/last index fragments",
 "C08-h": "missed at first (no macro with an empty body); macro-shape fragments",
 "C09-e": "missed at first (no non-ASCII leading lines); family nonascii-lines",
 "C09-g": "missed at first (only one side of the surrogate range in the vocabulary); value-1/value/value+1 for every parser limit",
 "C10-h": "missed at first (no text ended in a carriage return); family pl-line-endings, CR tokens in the short-text vocabulary",
 "C11-e": "missed at first; family tfm-varchar-sevenbit (VARCHAR recipes with absent pieces, with and without character 0)",
 "C11-f": "missed at first; family tfm-varchar-sevenbit (seven-bit-safe flag x left-boundary programs inserting 8-bit glyphs)",
 "C13-h": "missed at first (ASCII-only alphabets); non-ASCII alphabet with a harness LowerCaser",
 "C15-h": "missed at first (rules were fully explicit or fully running); mixed running/explicit rules",
 "C17-g": "missed at first (compress lattices never spanned more than 2048); extreme-member value sets",
 "C19-h": "missed at first (no read file had the unbalanced brace on its last line); files added",
 "C01-b": "missed at first (pair family bounded at 4 ops); new family globaldefs-histories",
 "C01-f": "missed at first (every assignment had a fresh value); same-value reassignment variants added",
 "C02-a": "missed by C02 at first (delimiters had <= 2 tokens; caught by C20's KMP family); new family long-delimiters",
 "C04-a": "missed at first (only fil in the alphabet); families infinite-orders, infinite-orders-skips",
 "C04-c": "missed at first (every list ended in fil parfillskip); families looseness-finite-end(-ragged), clean-finite-end",
 "C05-a": "missed at first (no zero kern in the op menu); zero kerns by value and by index added",
 "C07-b": "missed at first (no active character among the \\expandafter targets); active-macro / active-iffalse families",
 "C08-e": "missed at first (no empty control-sequence name in the fragments); interner edge-name fragments added",
 "C09-a": "missed by C09 at first (caught by C06); long digit strings added to the vocabulary",
 "C09-b": "missed by C09 at first (caught by C06); family extreme-arith (+ single deviations)",
 "C10-a": "missed at first (no non-ASCII inside scanned values); non-ASCII token faults added",
 "C11-b": "missed at first (original of pl-dimensions was itself a pl_to_tfm output); values compared with the property list, negative depths/italics in hand-written TFMs",
 "C11-c": "missed at first; redirect words inside SKIP windows added to tfm-noncanonical",
 "C11-d": "missed at first; trailing-zero extra header words added, lh compared",
 "C15-f": "missed at first (single-font menu); multi-font FontRepo",
 "C19-e": "missed at first (no read file started with a no-token line); comment-first / ignored-first files added",
}
rows = []
for d in sorted(glob.glob(os.path.join(ROOT, "seeded", "*", "meta.json"))):
    sid = d.split(os.sep)[-2]
    m = json.load(open(d))
    det = m.get("detection", {})
    caught = sorted(k for k, v in det.items() if v.get("caught"))
    missed = sorted(k for k, v in det.items() if not v.get("caught"))
    rows.append((sid, m.get("summary", "").replace("|", "/").replace("\n", " ")[:260], m.get("needs", "").replace("|", "/").replace("\n", " ")[:220],
                 ", ".join(caught) or "-", ", ".join(missed) or "-", HISTORY.get(sid, "")))
with open(os.path.join(ROOT, "seeded", "INDEX.md"), "w") as f:
    f.write("# Independently seeded property-breaking changes\n\nEach directory holds `patch.diff` (applies to /repo HEAD), `demo/` (fails with the change, passes without) and `meta.json`\n(what it needs to manifest, what was run to confirm it, and the result of running the quick tier against it in a scratch worktree).\nEvery change compiles and passes the repository's whole test suite.\n\n")
    f.write("| seed | change | needs | caught by (last run) | not caught by | history |\n|---|---|---|---|---|---|\n")
    for r in rows:
        f.write("| " + " | ".join(r) + " |\n")
    n = len(rows); c = sum(1 for r in rows if r[3] != "-")
    f.write(f"\n{n} seeds, {c} caught by at least one quick tier in the last recorded run; {sum(1 for r in rows if r[5])} were missed when first tried and led to a strengthened check.\n")
print("INDEX.md:", len(rows), "seeds")
