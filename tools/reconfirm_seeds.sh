#!/bin/bash
# tools/reconfirm_seeds.sh [id ...]  — re-confirm seeded changes against /repo's current HEAD in ONE shared scratch worktree
# (/tmp/reseed/wt; /tmp/seed-CNN are symlinks to it so the recorded demo commands keep working).
set -u
IDS="$@"; [ -n "$IDS" ] || IDS=$(ls /verif/seeded)
mkdir -p /tmp/reseed
[ -d /tmp/reseed/wt ] || git -C /repo worktree add --detach /tmp/reseed/wt HEAD >/dev/null 2>&1
git -C /tmp/reseed/wt checkout -q -- . ; git -C /tmp/reseed/wt checkout -q --force --detach "$(git -C /repo rev-parse HEAD)"
for id in $IDS; do
  P=${id%-*}
  for pre in seed seed2 seed3 seed4 seed5 seed6 seed7 seed8; do ln -sfn /tmp/reseed/wt /tmp/$pre-$P; done
  rm -rf /tmp/reseed/wt/SEED-r; mkdir -p /tmp/reseed/wt/SEED-r
  cp /verif/seeded/$id/patch.diff /verif/seeded/$id/meta.json /tmp/reseed/wt/SEED-r/; cp -r /verif/seeded/$id/demo /tmp/reseed/wt/SEED-r/demo
  # the recorded demo command refers to SEED-a or SEED-b: provide both names
  for n in SEED-a SEED-b SEED-c SEED-d SEED-e SEED-f SEED-g SEED-h SEED-i SEED-j SEED-k SEED-l SEED-m SEED-n SEED-o SEED-p; do rm -rf /tmp/reseed/wt/$n; mkdir -p /tmp/reseed/wt/$n; cp -r /verif/seeded/$id/demo /tmp/reseed/wt/$n/demo; done
  echo "== $id"
  /verif/tools/confirm_seed.sh /tmp/reseed/wt SEED-r "$id" 2>&1 | grep -E "clean-demo|CONFIRMED"
  for pre in seed seed2 seed3 seed4 seed5 seed6 seed7 seed8; do rm -f /tmp/$pre-$P; done
done
rm -rf /tmp/reseed/wt/SEED-*
