#!/bin/bash
# tools/confirm_seed.sh <worktree> <SEED-dir-name> <dest-id>
# Confirms a seeded change independently: demo passes on the clean tree, the whole repository suite passes with
# the change, the demo fails with the change. Then stores it as /verif/seeded/<dest-id>/ and reverts.
set -u
WT="$1"; SEED="$2"; DEST="/verif/seeded/$3"
cd "$WT" || exit 2
git checkout -q -- crates 2>/dev/null
DEMO=$(python3 -c "import json;print(json.load(open('$SEED/meta.json'))['demo_cmd'])")
echo "demo_cmd: $DEMO"
export CARGO_TARGET_DIR="$WT/target" CARGO_NET_OFFLINE=true
( eval "$DEMO" ) >/tmp/confirm-clean.log 2>&1; rc_clean=$?
git apply "$SEED/patch.diff" || { echo "patch does not apply"; exit 2; }
cargo test --workspace --no-fail-fast --offline >/tmp/confirm-suite.log 2>&1; rc_suite=$?
passed=$(grep -E "^test result: ok" /tmp/confirm-suite.log | sed -E 's/.* ([0-9]+) passed.*/\1/' | paste -sd+ | bc)
failed=$(grep -E "^test result: FAILED" /tmp/confirm-suite.log | wc -l)
( eval "$DEMO" ) >/tmp/confirm-mut.log 2>&1; rc_mut=$?
git checkout -q -- crates
echo "clean-demo rc=$rc_clean  suite rc=$rc_suite passed=$passed failed_binaries=$failed  mutated-demo rc=$rc_mut"
if [ $rc_clean -eq 0 ] && [ $rc_suite -eq 0 ] && [ $rc_mut -ne 0 ]; then
  mkdir -p "$DEST"; cp "$SEED/patch.diff" "$DEST/"; rm -rf "$DEST/demo"; cp -r "$SEED/demo" "$DEST/demo"; rm -rf "$DEST/demo/target"
  python3 - "$SEED/meta.json" "$DEST/meta.json" "$passed" "$rc_mut" <<'PY'
import json,sys
m=json.load(open(sys.argv[1]))
m["confirmed_by_me"]={"demo_on_clean_tree":"exit 0","repo_suite_with_change":f"cargo test --workspace --no-fail-fast --offline: exit 0, {sys.argv[3]} passed","demo_with_change":f"exit {sys.argv[4]}"}
json.dump(m,open(sys.argv[2],"w"),indent=1)
PY
  echo "CONFIRMED -> $DEST"
else
  echo "NOT CONFIRMED"; tail -5 /tmp/confirm-clean.log; tail -5 /tmp/confirm-mut.log; grep -E "FAILED|failed" /tmp/confirm-suite.log | head
fi
