#!/bin/bash
# tools/run_all.sh <tier> [ids...] — runs the checks one after the other, prints one summary line each
TIER="${1:-quick}"; shift
IDS="$@"; [ -n "$IDS" ] || IDS="C01 C02 C03 C04 C05 C06 C07 C08 C09 C10 C11 C12 C13 C14 C15 C16 C17 C18 C19 C20"
cd "$(dirname "$0")/.."
for id in $IDS; do
  s=$(date +%s)
  out=$(./check $id --tier $TIER 2>&1); rc=$?
  e=$(date +%s)
  echo "$id rc=$rc wall=$((e-s))s :: $(echo "$out" | grep -E "^$id (HELD|VIOLATED|MACHINERY)" | cut -c1-230)"
  echo "$out" | grep -E "^KNOWN-FINDING|^VIOLATION|CAPPED|MACHINERY" | cut -c1-160
done
