#!/bin/bash
# tools/fix_commit.sh <patch> "<commit message starting with fix:>"   — apply to /repo, run the unedited suite, commit if green
set -u
P="$1"; MSG="$2"
cd /repo || exit 2
[ -z "$(git status --porcelain --untracked-files=no)" ] || { echo "repo dirty"; exit 2; }
git apply "$P" || { echo "patch does not apply"; exit 2; }
cargo nextest run --workspace --no-fail-fast --test-threads 8 --offline > /tmp/fix-suite.log 2>&1; rc=$?
grep -E "Summary|FAIL " /tmp/fix-suite.log | head -5
if [ $rc -ne 0 ]; then echo "SUITE FAILED, reverting"; git checkout -- .; exit 1; fi
git commit -qam "$MSG" && git log --oneline | head -1
